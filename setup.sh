#!/bin/sh
# Offline setup: parse every specification, byte-compile the tools, warm the driver cache.
set -e
cd "$(dirname "$0")"
mkdir -p .build evidence
for f in spec/*.tla; do
    ( cd spec && tla-sany "$(basename "$f")" >/dev/null 2>&1 ) || { echo "SANY failed: $f" >&2; ( cd spec && tla-sany "$(basename "$f")" | tail -5 >&2 ); exit 1; }
done
python3 -m py_compile check tools/*.py
python3 tools/prebuild.py
echo "setup ok"
