/* Scalar varint driver (C01, C04, C05, C12).
 *
 *   drv_scalar <mode> <values-file> <shard> <nshards> <nrandom> <out.ndjson>
 *
 * modes: rt  - every put/get/len entry point of every family on every value
 *        cmp - memcmp order of tagged keys (pairs and short tuples)
 *        add - in-place add edges (file lines: fam grow w v[8] amt[8]) + random walks
 *        sgn - signed-storage helpers
 *
 * The driver records observations only; TLC judges them (spec/ScalarTrace.tla). */
#include "varint.h"
#include "varintChained.h"
#include "varintChainedSimple.h"
#include "varintExternal.h"
#include "varintExternalBigEndian.h"
#include "varintSplit.h"
#include "varintSplitFull.h"
#include "varintSplitFull16.h"
#include "varintSplitFullNoZero.h"
#include "varintTagged.h"
#include "varintDelta.h"
#include "varintElias.h"

#include "trace.h"

/* defined in varintTagged.c, not declared under these names in the header */
varintWidth varintTaggedPutVarint32(uint8_t *p, uint32_t v);
varintWidth varintTaggedGetVarint32(const uint8_t *z, uint32_t *pResult);

#define WIN 40
#define OFF0 16
static uint8_t win_store[WIN + 16] __attribute__((aligned(16)));
static uint8_t *win;
static unsigned fillctr;
static int cur_fill, cur_off;
/* another driver (drv_purity.c) may include this file: it varies the window's
 * previous content through g_win_salt and receives every round trip through
 * g_rt_hook instead of the trace */
static unsigned g_win_salt;
static void (*g_rt_hook)(const char *fam, const char *put, uint64_t v, int w, int start, int pret, int gret,
                         uint64_t val);

static uint8_t *win_prep(void) {
    fillctr++;
    cur_fill = (int)((fillctr * 53u + 11u + g_win_salt) & 255u);
    cur_off = OFF0 + (int)(fillctr % 8u);
    win = win_store;
    for (int i = 0; i < WIN; i++) {
        win[i] = (uint8_t)(cur_fill + 37 * i);
    }
    return win + cur_off;
}

/* one round trip: put already done into win; record + run the getter */
static void rt_emit(const char *fam, const char *put, const char *get,
                    uint64_t v, int w, int start, const char *img, int pret,
                    int gret, uint64_t val) {
    if (g_rt_hook) {
        g_rt_hook(fam, put, v, w, start, pret, gret, val);
        return;
    }
    ev_begin("RT");
    ev_str("fam", fam);
    ev_str("put", put);
    ev_str("get", get);
    ev_word("v", v);
    ev_int("w", w);
    ev_int("f", cur_fill);
    ev_int("start", start);
    ev_str("img", img);
    ev_int("pret", pret);
    ev_bytes("win", win, WIN);
    ev_int("gret", gret);
    ev_word("val", val);
    ev_end();
}
static void len_emit(const char *fam, const char *api, uint64_t v, int b,
                     int pret, int ret) {
    if (g_rt_hook) {
        return;
    }
    ev_begin("Len");
    ev_str("fam", fam);
    ev_str("api", api);
    ev_word("v", v);
    ev_int("b", b);
    ev_int("pret", pret);
    ev_int("ret", ret);
    ev_end();
}

/* ------------------------------------------------------------------ tagged */
static int tagged_legal_fixed(uint64_t v, int w) {
    int l = (int)varintTaggedLen(v); /* only to skip calls the API forbids */
    (void)l;
    /* legality is decided by the spec; here we only avoid widths that the
     * header documents as undefined: width < minimal width. We use our own
     * arithmetic, not the library's, to decide. */
    int need = v <= 240 ? 1 : v <= 2287 ? 2 : v <= 67823 ? 3 : 0;
    if (!need) {
        int bw = 1;
        uint64_t t = v;
        while (t >>= 8) {
            bw++;
        }
        need = bw <= 3 ? 4 : bw + 1;
    }
    return w == need || (w >= 4 && w >= need);
}

static void do_tagged(uint64_t v) {
    uint8_t *d;
    uint64_t val;
    int pret, gret;

    d = win_prep();
    pret = (int)varintTaggedPut64(d, v);
    val = 0;
    gret = (int)varintTaggedGet64(d, &val);
    rt_emit("tagged", "Put64", "Get64", v, 0, cur_off, "fwd", pret, gret, val);
    int plen = pret;

    val = 0;
    gret = (int)varintTaggedGet(d, 9, &val);
    rt_emit("tagged", "Put64", "Get9", v, 0, cur_off, "fwd", pret, gret, val);
    val = 0;
    gret = (int)varintTaggedGet(d, pret, &val);
    rt_emit("tagged", "Put64", "GetExact", v, 0, cur_off, "fwd", pret, gret,
            val);
    val = varintTaggedGet64ReturnValue(d);
    rt_emit("tagged", "Put64", "Get64ReturnValue", v, 0, cur_off, "fwd", pret,
            -1, val);
    val = varintTaggedGet64Quick_(d);
    rt_emit("tagged", "Put64", "Get64Quick_", v, 0, cur_off, "fwd", pret, -1,
            val);

    len_emit("tagged", "Len", v, -1, plen, (int)varintTaggedLen(v));
    len_emit("tagged", "LenQuick", v, -1, plen, (int)varintTaggedLenQuick(v));
    len_emit("tagged", "GetLen", v, d[0], plen, (int)varintTaggedGetLen(d));
    len_emit("tagged", "GetLenQuick_", v, d[0], plen,
             (int)varintTaggedGetLenQuick_(d));

    for (int w = 1; w <= 9; w++) {
        if (!tagged_legal_fixed(v, w)) {
            continue;
        }
        d = win_prep();
        pret = (int)varintTaggedPut64FixedWidth(d, v, (varintWidth)w);
        val = 0;
        gret = (int)varintTaggedGet64(d, &val);
        rt_emit("tagged", "Put64FixedWidth", "Get64", v, w, cur_off, "fwd",
                pret, gret, val);
        d = win_prep();
        varintTaggedPut64FixedWidthQuick_(d, v, (varintWidth)w);
        val = 0;
        gret = (int)varintTaggedGet64(d, &val);
        rt_emit("tagged", "Put64FixedWidthQuick_", "Get64", v, w, cur_off,
                "fwd", w, gret, val);
        {
            uint64_t v_hi = v & 0xAAAAAAAAAAAAAAAAULL, v_lo = v & 0x5555555555555555ULL; /* every byte gets bits from both operands */
            int zero = (int)(fillctr & 0);
            d = win_prep();
            varintTaggedPut64FixedWidthQuick_(d + zero, v_hi | v_lo, (varintWidth)(w | zero));
            val = varintTaggedGet64Quick_(d + zero);
            rt_emit("tagged", "Put64FixedWidthQuick_(expr)", "Get64Quick_(expr)", v, w, cur_off, "fwd", w, -1, val);
        }
    }
    if (v <= UINT32_MAX) {
        uint32_t v32 = 0;
        d = win_prep();
        pret = (int)varintTaggedPutVarint32(d, (uint32_t)v);
        gret = (int)varintTaggedGetVarint32(d, &v32);
        rt_emit("tagged", "PutVarint32", "GetVarint32", v, 0, cur_off, "fwd",
                pret, gret, v32);
    }
}

/* ---------------------------------------------------------------- external */
static int bytewidth(uint64_t v) {
    int bw = 1;
    while (v >>= 8) {
        bw++;
    }
    return bw;
}

static void do_ext(uint64_t v) {
    uint8_t *d;
    uint64_t val;
    int pret;
    d = win_prep();
    pret = (int)varintExternalPut(d, v);
    val = varintExternalGet(d, (varintWidth)pret);
    rt_emit("ext", "Put", "Get", v, 0, cur_off, "fwd", pret, -1, val);
    int plen = pret;
    varintExternalGetQuick_(d, pret, val);
    rt_emit("ext", "Put", "GetQuick_", v, 0, cur_off, "fwd", pret, -1, val);
    varintExternalGetQuickMedium_(d, pret, val);
    rt_emit("ext", "Put", "GetQuickMedium_", v, 0, cur_off, "fwd", pret, -1,
            val);
    val = varintExternalGetQuickMediumReturnValue_(d, pret);
    rt_emit("ext", "Put", "GetQuickMediumReturnValue_", v, 0, cur_off, "fwd",
            pret, -1, val);
    if (v <= (uint64_t)INT64_MAX) {
        len_emit("ext", "ExternalLen", v, -1, plen, (int)varintExternalLen(v));
    }
    varintWidth e;
    varintExternalUnsignedEncoding(v, e);
    len_emit("ext", "UnsignedEncoding", v, -1, plen, (int)e);

    for (int w = bytewidth(v); w <= 8; w++) {
        d = win_prep();
        varintExternalPutFixedWidth(d, v, (varintWidth)w);
        val = varintExternalGet(d, (varintWidth)w);
        rt_emit("ext", "PutFixedWidth", "Get", v, w, cur_off, "fwd", w, -1,
                val);
        d = win_prep();
        varintExternalPutFixedWidthQuick_(d, v, w);
        varintExternalGetQuick_(d, w, val);
        rt_emit("ext", "PutFixedWidthQuick_", "GetQuick_", v, w, cur_off,
                "fwd", w, -1, val);
        d = win_prep();
        varintExternalPutFixedWidthQuickMedium_(d, v, w);
        varintExternalGetQuickMedium_(d, w, val);
        rt_emit("ext", "PutFixedWidthQuickMedium_", "GetQuickMedium_", v, w,
                cur_off, "fwd", w, -1, val);
        /* the macros with expression arguments (value as hi | lo, width as w | 0, address as base + 0) */
        {
            uint64_t v_hi = v & 0xAAAAAAAAAAAAAAAAULL, v_lo = v & 0x5555555555555555ULL; /* every byte gets bits from both operands */
            int zero = (int)(fillctr & 0);
            d = win_prep();
            varintExternalPutFixedWidthQuick_(d + zero, v_hi | v_lo, w | zero);
            varintExternalGetQuick_(d + zero, w | zero, val);
            rt_emit("ext", "PutFixedWidthQuick_(expr)", "GetQuick_(expr)", v, w, cur_off, "fwd", w, -1, val);
            d = win_prep();
            varintExternalPutFixedWidthQuickMedium_(d + zero, v_hi | v_lo, w | zero);
            varintExternalGetQuickMedium_(d + zero, w | zero, val);
            rt_emit("ext", "PutFixedWidthQuickMedium_(expr)", "GetQuickMedium_(expr)", v, w, cur_off, "fwd", w, -1,
                    val);
            d = win_prep();
            varintExternalBigEndianPutFixedWidthQuick_(d + zero, v_hi | v_lo, w | zero);
            varintExternalBigEndianGetQuick_(d + zero, w | zero, val);
            rt_emit("extbe", "PutFixedWidthQuick_(expr)", "GetQuick_(expr)", v, w, cur_off, "fwd", w, -1, val);
        }
    }

    /* 128-bit fixed-width writer / reader carrying a 64-bit value */
    for (int w = bytewidth(v); w <= 16; w++) {
        d = win_prep();
        varintExternalPutFixedWidthBig(d, (__uint128_t)v, (varintWidth)w);
        __uint128_t big = varintBigExternalGet(d, (varintWidth)w);
        val = (uint64_t)big;
        if ((uint64_t)(big >> 64) != 0) {
            val = ~v; /* high half must come back zero */
        }
        rt_emit("extbig", "PutFixedWidthBig", "BigExternalGet", v, w, cur_off, "fwd", w, -1, val);
    }

    /* big endian */
    d = win_prep();
    pret = (int)varintExternalBigEndianPut(d, v);
    val = varintExternalBigEndianGet(d, (varintWidth)pret);
    rt_emit("extbe", "Put", "Get", v, 0, cur_off, "fwd", pret, -1, val);
    plen = pret;
    varintExternalBigEndianGetQuick_(d, pret, val);
    rt_emit("extbe", "Put", "GetQuick_", v, 0, cur_off, "fwd", pret, -1, val);
    varintExternalBigEndianUnsignedEncoding(v, e);
    len_emit("extbe", "UnsignedEncoding", v, -1, plen, (int)e);
    for (int w = bytewidth(v); w <= 8; w++) {
        d = win_prep();
        varintExternalBigEndianPutFixedWidth(d, v, (varintWidth)w);
        val = varintExternalBigEndianGet(d, (varintWidth)w);
        rt_emit("extbe", "PutFixedWidth", "Get", v, w, cur_off, "fwd", w, -1,
                val);
        d = win_prep();
        varintExternalBigEndianPutFixedWidthQuick_(d, v, w);
        varintExternalBigEndianGetQuick_(d, w, val);
        rt_emit("extbe", "PutFixedWidthQuick_", "GetQuick_", v, w, cur_off,
                "fwd", w, -1, val);
    }
}

/* ----------------------------------------------------------------- chained */
static void do_chained(uint64_t v) {
    uint8_t *d;
    uint64_t val = 0;
    int pret, gret;
    d = win_prep();
    pret = (int)varintChainedPutVarint(d, v);
    gret = (int)varintChainedGetVarint(d, &val);
    rt_emit("chained", "PutVarint", "GetVarint", v, 0, cur_off, "fwd", pret,
            gret, val);
    len_emit("chained", "VarintLen", v, -1, pret,
             (int)varintChainedVarintLen(v));
    if (v <= UINT32_MAX) {
        uint32_t v32 = 0;
        d = win_prep();
        pret = (int)varintChained_putVarint32(d, (uint32_t)v);
        gret = (int)varintChained_getVarint32(d, v32);
        rt_emit("chained", "_putVarint32", "_getVarint32", v, 0, cur_off,
                "fwd", pret, gret, v32);
        /* the out-of-line 32-bit reader (documented as: the single-byte
         * case has already been handled by the macro) */
        if (v >= 128) {
            v32 = 0;
            gret = (int)varintChainedGetVarint32(d, &v32);
            rt_emit("chained", "_putVarint32", "GetVarint32", v, 0, cur_off,
                    "fwd", pret, gret, v32);
        }
    }

    d = win_prep();
    val = 0;
    pret = (int)varintChainedSimpleEncode64(d, v);
    gret = (int)varintChainedSimpleDecode64(d, &val);
    rt_emit("csimple", "Encode64", "Decode64", v, 0, cur_off, "fwd", pret,
            gret, val);
    len_emit("csimple", "Length", v, -1, pret,
             (int)varintChainedSimpleLength(v));
    if (v <= UINT32_MAX) {
        uint32_t v32 = 0;
        d = win_prep();
        pret = (int)varintChainedSimpleEncode32(d, (uint32_t)v);
        gret = (int)varintChainedSimpleDecode32(d, &v32);
        rt_emit("csimple", "Encode32", "Decode32", v, 0, cur_off, "fwd", pret,
                gret, v32);
        v32 = 0;
        gret = (int)varintChainedSimpleDecode32Fallback(d, &v32);
        rt_emit("csimple", "Encode32", "Decode32Fallback", v, 0, cur_off,
                "fwd", pret, gret, v32);
    }
}

/* ------------------------------------------------------------------- split */
#define SPLIT_FWD(FAM, PFX)                                                    \
    do {                                                                       \
        uint8_t *d = win_prep();                                               \
        uint8_t elen = 0;                                                      \
        uint64_t val = 0;                                                      \
        uint8_t glen = 0;                                                      \
        PFX##Put_(d, elen, v);                                                 \
        PFX##Get_(d, glen, val);                                               \
        rt_emit(FAM, "Put_", "Get_", v, 0, cur_off, "fwd", elen, glen, val);   \
        uint8_t l2 = 0;                                                        \
        PFX##Length_(l2, v);                                                   \
        len_emit(FAM, "Length_", v, -1, elen, l2);                             \
        uint8_t l3 = 0;                                                        \
        PFX##GetLen_(d, l3);                                                   \
        len_emit(FAM, "GetLen_", v, d[0], elen, l3);                           \
        len_emit(FAM, "GetLenQuick_", v, d[0], elen,                           \
                 (int)PFX##GetLenQuick_(d));                                   \
        /* the same macros with EXPRESSIONS as arguments (a caller writes      \
         * hi | lo, base + off, ...): operators binding looser than the        \
         * macro body's shifts and casts */                                    \
        uint8_t *d0 = win_prep();                                              \
        int zero = (int)(fillctr & 0);                                         \
        elen = 0;                                                              \
        val = 0;                                                               \
        glen = 0;                                                              \
        PFX##Put_(d0 + zero, elen, v_hi | v_lo);                               \
        PFX##Get_(d0 + zero, glen, val);                                       \
        rt_emit(FAM, "Put_(expr)", "Get_(expr)", v, 0, cur_off, "fwd", elen,   \
                glen, val);                                                    \
        l2 = 0;                                                                \
        PFX##Length_(l2, v_hi | v_lo);                                         \
        len_emit(FAM, "Length_(expr)", v, -1, elen, l2);                       \
    } while (0)

#define SPLIT_REV(FAM, PFX)                                                    \
    do {                                                                       \
        uint8_t *d = win_prep();                                               \
        uint8_t elen = 0;                                                      \
        uint64_t val = 0;                                                      \
        uint8_t glen = 0;                                                      \
        PFX##ReversedPutReversed_(d, elen, v);                                 \
        PFX##ReversedGet_(d, glen, val);                                       \
        rt_emit(FAM, "ReversedPutReversed_", "ReversedGet_", v, 0,             \
                cur_off - elen + 1, "rev", elen, glen, val);                   \
        d = win_prep();                                                        \
        elen = 0;                                                              \
        val = 0;                                                               \
        glen = 0;                                                              \
        PFX##ReversedPutForward_(d, elen, v);                                  \
        uint8_t *last = d + elen - 1;                                          \
        PFX##ReversedGet_(last, glen, val);                                    \
        rt_emit(FAM, "ReversedPutForward_", "ReversedGet_", v, 0, cur_off,     \
                "rev", elen, glen, val);                                       \
    } while (0)

static void do_split(uint64_t v) {
    uint64_t v_hi = v & 0xAAAAAAAAAAAAAAAAULL, v_lo = v & 0x5555555555555555ULL; /* every byte gets bits from both operands */
    SPLIT_FWD("split", varintSplit);
    SPLIT_REV("split", varintSplit);
    SPLIT_FWD("splitfull", varintSplitFull);
    SPLIT_REV("splitfull", varintSplitFull);
    if (v != 0) {
        SPLIT_FWD("splitnz", varintSplitFullNoZero);
        SPLIT_REV("splitnz", varintSplitFullNoZero);
    }
    SPLIT_FWD("split16", varintSplitFull16);
}

/* ------------------------------------------------------------------ values */
static uint64_t *vals;
static size_t nvals;

static void load_values(const char *path) {
    FILE *f = fopen(path, "r");
    if (!f) {
        perror(path);
        exit(2);
    }
    size_t cap = 1024;
    vals = malloc(cap * sizeof(*vals));
    char line[4096];
    while (fgets(line, sizeof(line), f)) {
        unsigned b[8];
        if (sscanf(line, " [%u,%u,%u,%u,%u,%u,%u,%u]", &b[0], &b[1], &b[2],
                   &b[3], &b[4], &b[5], &b[6], &b[7]) != 8) {
            continue;
        }
        uint64_t v = 0;
        for (int i = 7; i >= 0; i--) {
            v = (v << 8) | (b[i] & 255);
        }
        if (nvals == cap) {
            cap *= 2;
            vals = realloc(vals, cap * sizeof(*vals));
        }
        vals[nvals++] = v;
    }
    fclose(f);
}

static void mode_rt(size_t shard, size_t nshards, size_t nrandom) {
    for (size_t i = 0; i < nvals + nrandom; i++) {
        uint64_t v = i < nvals ? vals[i] : rng_anywidth();
        if (i % nshards != shard) {
            continue;
        }
        do_tagged(v);
        do_ext(v);
        do_chained(v);
        do_split(v);
    }
}

/* --------------------------------------------------------------------- cmp */
/* how a key is produced: 0 = varintTaggedPut64; 1 = put another value, then
 * varintTaggedAddGrow the difference in place; 2 = same with AddNoGrow when
 * the result cannot be longer than the slot.  A stored tagged varint must be
 * THE tagged encoding of its value however it got there. */
static size_t key_put(uint8_t *k, uint64_t v, int how) {
    if (how == 0) {
        return varintTaggedPut64(k, v);
    }
    if (how == 3) { /* the 32-bit writer and the fixed-width writer at the minimal width */
        return v <= UINT32_MAX ? (size_t)varintTaggedPutVarint32(k, (uint32_t)v) : varintTaggedPut64(k, v);
    }
    if (how == 4) {
        varintWidth w = varintTaggedLen(v);
        varintTaggedPut64FixedWidth(k, v, w);
        return (size_t)w;
    }
    if (how == 5) { /* the inline pair: length macro + fixed-width macro */
        varintWidth w = varintTaggedLenQuick(v);
        varintTaggedPut64FixedWidthQuick_(k, v, w);
        return (size_t)w;
    }
    /* how >= 10: counter-style use, the value is reached by a small step:
     * how = 10 + 2*j (+1): start = v + STEP[j] stepped down with AddGrow
     * (even) / start = v - STEP[j] stepped up with AddGrow (odd) */
    if (how >= 10) {
        static const uint64_t STEP[] = {1, 2, 5, 16, 255, 256};
        uint64_t d = STEP[((how - 10) / 2) % 6];
        int up = (how - 10) & 1;
        uint64_t st = up ? v - d : v + d;
        if ((up && v < d) || (!up && st < v) || (int64_t)st < 0 || (int64_t)v < 0) {
            return varintTaggedPut64(k, v);
        }
        varintTaggedPut64(k, st);
        return (size_t)varintTaggedAddGrow(k, up ? (int64_t)d : -(int64_t)d);
    }
    /* start from a value of at least the same length so that no-grow applies */
    uint64_t start = how == 2 ? (v < (1ULL << 62) ? v * 2 + 70000 : v) : v / 2;
    if ((int64_t)start < 0 || (int64_t)v < 0) {
        return varintTaggedPut64(k, v); /* keep the signed sum in range */
    }
    varintTaggedPut64(k, start);
    int64_t amt = (int64_t)v - (int64_t)start;
    varintWidth w = how == 1 ? varintTaggedAddGrow(k, amt) : varintTaggedAddNoGrow(k, amt);
    return (size_t)w;
}

static void cmp_emit_how(const uint64_t *a, const uint64_t *b, size_t n, int how) {
    /* keys are built in place inside records: every alignment of the key's
     * first byte (0..7 modulo 8) comes up, the two keys at different ones */
    static uint8_t ka_store[96] __attribute__((aligned(16))), kb_store[96] __attribute__((aligned(16)));
    static unsigned align_ctr;
    align_ctr++;
    uint8_t *ka = ka_store + (align_ctr % 8), *kb = kb_store + ((align_ctr / 8 + align_ctr) % 8);
    size_t la = 0, lb = 0;
    for (size_t i = 0; i < n; i++) {
        la += key_put(ka + la, a[i], how);
        lb += key_put(kb + lb, b[i], 0);
    }
    size_t m = la < lb ? la : lb;
    int c = memcmp(ka, kb, m);
    /* composite keys of unequal byte length compare by common prefix, then
     * length, as any key-value store does */
    int sign = c < 0 ? -1 : c > 0 ? 1 : (la < lb ? -1 : la > lb ? 1 : 0);
    ev_begin("Cmp");
    ev_int("how", how);
    ev_words("a", a, n);
    ev_words("b", b, n);
    ev_bytes("ka", ka, la);
    ev_bytes("kb", kb, lb);
    ev_int("sign", sign);
    ev_int("prefix", c == 0 && la != lb);
    ev_end();
}
static void cmp_emit(const uint64_t *a, const uint64_t *b, size_t n) {
    cmp_emit_how(a, b, n, 0);
}

static void mode_cmp(size_t shard, size_t nshards, size_t nrandom) {
    size_t idx = 0;
    /* adjacent pairs of the (sorted) boundary list, both directions */
    for (size_t i = 0; i + 1 < nvals; i++) {
        if (idx++ % nshards != shard) {
            continue;
        }
        cmp_emit(&vals[i], &vals[i + 1], 1);
        cmp_emit(&vals[i + 1], &vals[i], 1);
        cmp_emit(&vals[i], &vals[i], 1);
        /* the same value reached by an in-place add must give the same bytes */
        cmp_emit_how(&vals[i], &vals[i], 1, 1);
        cmp_emit_how(&vals[i], &vals[i + 1], 1, 2);
        cmp_emit_how(&vals[i + 1], &vals[i], 1, 2);
        cmp_emit_how(&vals[i], &vals[i], 1, 3);
        cmp_emit_how(&vals[i], &vals[i], 1, 4);
        cmp_emit_how(&vals[i], &vals[i], 1, 5);
        /* ... and by counter-style small steps in both directions */
        for (int h = 10; h < 22; h++) {
            cmp_emit_how(&vals[i], &vals[i], 1, h);
        }
    }
    /* pairs differing in exactly one payload byte, random pairs, tuples */
    for (size_t i = 0; i < nrandom; i++) {
        uint64_t a = rng_anywidth(), b;
        unsigned k = (unsigned)(rng_u64() % 4);
        if (k == 0) {
            b = rng_anywidth();
        } else if (k == 1) {
            b = a ^ ((uint64_t)(1 + rng_u64() % 255) << (8 * (rng_u64() % 8)));
        } else if (k == 2) {
            b = a + 1;
        } else {
            b = vals[rng_u64() % nvals];
        }
        uint64_t ta[3], tb[3];
        size_t n = 1 + (size_t)(rng_u64() % 3);
        for (size_t j = 0; j < n; j++) {
            ta[j] = vals[rng_u64() % nvals];
            tb[j] = (rng_u64() & 1) ? ta[j] : vals[rng_u64() % nvals];
        }
        if (idx++ % nshards != shard) {
            continue;
        }
        cmp_emit(&a, &b, 1);
        cmp_emit(ta, tb, n);
    }
}

/* --------------------------------------------------------------------- add */
#define SLOT 24
static void add_emit(const char *fam, int grow, int w, uint64_t amt,
                     const uint8_t *pre, const uint8_t *post, int ret, int off) {
    ev_begin("Add");
    ev_str("fam", fam);
    ev_int("grow", grow);
    ev_int("w", w);
    ev_word("amt", amt);
    ev_int("off", off);
    ev_bytes("pre", pre, SLOT);
    ev_bytes("post", post, SLOT);
    ev_int("ret", ret);
    ev_end();
}

/* store v (width w for external) then add; returns new width */
static int add_once(int tagged, int grow, uint8_t *slotbuf, int off, int w,
                    int64_t amt) {
    uint8_t pre[SLOT];
    memcpy(pre, slotbuf, SLOT);
    int ret;
    if (tagged) {
        ret = grow ? (int)varintTaggedAddGrow(slotbuf + off, amt)
                   : (int)varintTaggedAddNoGrow(slotbuf + off, amt);
    } else {
        ret = grow ? (int)varintExternalAddGrow(slotbuf + off, (varintWidth)w,
                                                amt)
                   : (int)varintExternalAddNoGrow(slotbuf + off,
                                                  (varintWidth)w, amt);
    }
    add_emit(tagged ? "tagged" : "ext", grow, w, (uint64_t)amt, pre, slotbuf,
             ret, off);
    return ret;
}

static void slot_init(uint8_t *slotbuf, int off, int tagged, uint64_t v,
                      int *w) {
    static unsigned c;
    c++;
    for (int i = 0; i < SLOT; i++) {
        slotbuf[i] = (uint8_t)(0xC3 + 29 * i + 7 * c);
    }
    if (tagged) {
        /* a slot may be wider than its value needs (a counter stored with the
         * fixed-width writer): its first byte announces the width */
        if (*w >= 4 && tagged_legal_fixed(v, *w)) {
            varintTaggedPut64FixedWidth(slotbuf + off, v, (varintWidth)*w);
        } else {
            *w = (int)varintTaggedPut64(slotbuf + off, v);
        }
    } else {
        if (*w < bytewidth(v)) {
            *w = bytewidth(v);
        }
        varintExternalPutFixedWidth(slotbuf + off, v, (varintWidth)*w);
    }
    ev_begin("Slot");
    ev_str("fam", tagged ? "tagged" : "ext");
    ev_word("v", v);
    ev_int("w", *w);
    ev_int("off", off);
    ev_bytes("bytes", slotbuf, SLOT);
    ev_end();
}

static void mode_add(const char *path, size_t shard, size_t nshards,
                     size_t nrandom) {
    FILE *f = fopen(path, "r");
    if (!f) {
        perror(path);
        exit(2);
    }
    char line[512];
    size_t idx = 0;
    uint8_t slotbuf[SLOT];
    while (fgets(line, sizeof(line), f)) {
        char fam[16];
        int grow, w;
        unsigned vb[8], ab[8];
        if (sscanf(line,
                   "%15s %d %d %u %u %u %u %u %u %u %u %u %u %u %u %u %u %u %u",
                   fam, &grow, &w, &vb[0], &vb[1], &vb[2], &vb[3], &vb[4],
                   &vb[5], &vb[6], &vb[7], &ab[0], &ab[1], &ab[2], &ab[3],
                   &ab[4], &ab[5], &ab[6], &ab[7]) != 19) {
            continue;
        }
        if (idx++ % nshards != shard) {
            continue;
        }
        uint64_t v = 0, a = 0;
        for (int i = 7; i >= 0; i--) {
            v = (v << 8) | vb[i];
            a = (a << 8) | ab[i];
        }
        int tagged = strcmp(fam, "tagged") == 0;
        int off = 4 + (int)(idx % 4);
        slot_init(slotbuf, off, tagged, v, &w);
        add_once(tagged, grow, slotbuf, off, w, (int64_t)a);
    }
    fclose(f);

    /* random walks: the slot keeps the width the library last reported */
    for (size_t i = 0; i < nrandom; i++) {
        int tagged = (int)(rng_u64() & 1);
        uint64_t v = (rng_u64() & 3) ? vals[rng_u64() % nvals] : rng_anywidth();
        int w = tagged ? ((rng_u64() & 1) ? 0 : (int)(4 + rng_u64() % 6)) : (int)(1 + rng_u64() % 8);
        int off = 4 + (int)(rng_u64() % 4);
        uint64_t amts[6];
        int grows[6];
        for (int s = 0; s < 6; s++) {
            unsigned k = (unsigned)(rng_u64() % 6);
            uint64_t t = vals[rng_u64() % nvals];
            amts[s] = k == 0   ? 1
                      : k == 1 ? (uint64_t)-1
                      : k == 2 ? t - v
                      : k == 3 ? t - v + 1
                      : k == 4 ? (uint64_t)(-(int64_t)(rng_anywidth() >> 1))
                               : rng_anywidth() >> 1;
            grows[s] = (int)(rng_u64() & 1);
        }
        if (idx++ % nshards != shard) {
            continue;
        }
        slot_init(slotbuf, off, tagged, v, &w);
        for (int s = 0; s < 6; s++) {
            int ret = add_once(tagged, grows[s], slotbuf, off, w,
                               (int64_t)amts[s]);
            /* after a successful add the caller tracks the returned width */
            if (ret == 0 || tagged) {
                continue;
            }
            if (!grows[s] && ret > w) {
                continue; /* refused: slot unchanged */
            }
            w = ret;
        }
    }
}

/* --------------------------------------------------------------------- sgn */
static void sgn_emit(int w, int64_t x, uint64_t stored, int64_t restored) {
    ev_begin("Signed");
    ev_int("w", w);
    ev_word("x", (uint64_t)x);
    ev_word("stored", stored);
    ev_word("restored", (uint64_t)restored);
    ev_end();
}

static void sgn_one(int w, int64_t x) {
    /* the helpers are macros over the caller's variable; documented use is a
     * 32-bit variable for the 24-bit field and 64-bit for 40/48/56 */
    if (w == 3) {
        int32_t v = (int32_t)x;
        varintPrepareSigned32to24_(v);
        int32_t st = v;
        uint8_t buf[8] = {0};
        varintExternalPutFixedWidth(buf, (uint64_t)(uint32_t)v, 3);
        int32_t r = (int32_t)varintExternalGet(buf, 3);
        varintRestoreSigned24to32_(r);
        sgn_emit(w, x, (uint64_t)(uint32_t)st, r);
    } else {
        int64_t v = x;
        int64_t st;
        uint8_t buf[8] = {0};
        int64_t r;
        if (w == 5) {
            varintPrepareSigned64to40_(v);
            st = v;
            varintExternalPutFixedWidth(buf, (uint64_t)v, 5);
            r = (int64_t)varintExternalGet(buf, 5);
            varintRestoreSigned40to64_(r);
        } else if (w == 6) {
            varintPrepareSigned64to48_(v);
            st = v;
            varintExternalPutFixedWidth(buf, (uint64_t)v, 6);
            r = (int64_t)varintExternalGet(buf, 6);
            varintRestoreSigned48to64_(r);
        } else {
            varintPrepareSigned64to56_(v);
            st = v;
            varintExternalPutFixedWidth(buf, (uint64_t)v, 7);
            r = (int64_t)varintExternalGet(buf, 7);
            varintRestoreSigned56to64_(r);
        }
        sgn_emit(w, x, (uint64_t)st, r);
    }
}

static void mode_sgn(size_t shard, size_t nshards, size_t nrandom) {
    static const int ws[4] = {3, 5, 6, 7};
    size_t idx = 0;
    for (int wi = 0; wi < 4; wi++) {
        int w = ws[wi];
        int64_t lim = ((int64_t)1 << (8 * w - 1)) - 1; /* |x| <= lim */
        for (int k = 0; k < 8 * w - 1; k++) {
            for (int d = -1; d <= 1; d++) {
                int64_t m = ((int64_t)1 << k) + d;
                if (m < 0 || m > lim) {
                    continue;
                }
                if (idx++ % nshards != shard) {
                    continue;
                }
                sgn_one(w, m);
                sgn_one(w, -m);
            }
        }
        for (size_t i = 0; i < nrandom; i++) {
            int64_t m = (int64_t)(rng_anywidth() & (uint64_t)lim);
            if (idx++ % nshards != shard) {
                continue;
            }
            sgn_one(w, (rng_u64() & 1) ? m : -m);
        }
    }
}

/* -------------------------------------------------------------------- bits */
static void bits_one(uint64_t v) {
    if (v >= 1) {
        for (int code = 0; code < 2; code++) {
            uint8_t buf[24];
            memset(buf, 0, sizeof(buf));
            varintBitWriter w;
            varintBitWriterInit(&w, buf, sizeof(buf));
            size_t n = code ? varintEliasDeltaEncode(&w, v)
                            : varintEliasGammaEncode(&w, v);
            size_t q = code ? varintEliasDeltaBits(v) : varintEliasGammaBits(v);
            varintBitReader r;
            varintBitReaderInit(&r, buf, n);
            uint64_t dec =
                code ? varintEliasDeltaDecode(&r) : varintEliasGammaDecode(&r);
            ev_begin("Bits");
            ev_str("code", code ? "delta" : "gamma");
            ev_word("v", v);
            ev_int("nbits", (long long)n);
            ev_int("qbits", (long long)q);
            ev_int("wpos", (long long)w.bitPos);
            ev_int("rpos", (long long)r.bitPos);
            ev_bytes("buf", buf, sizeof(buf));
            ev_word("dec", dec);
            ev_end();
        }
    }
    uint64_t z = varintDeltaZigZag((int64_t)v);
    int64_t back = varintDeltaZigZagDecode(z);
    ev_begin("ZigZag");
    ev_word("n", v);
    ev_word("z", z);
    ev_word("back", (uint64_t)back);
    ev_end();
}

static void mode_bits(size_t shard, size_t nshards, size_t nrandom) {
    for (size_t i = 0; i < nvals + nrandom; i++) {
        uint64_t v = i < nvals ? vals[i] : rng_anywidth();
        if (i % nshards != shard) {
            continue;
        }
        bits_one(v);
    }
}

#ifndef DRV_SCALAR_NO_MAIN
int main(int argc, char **argv) {
    if (argc < 7) {
        fprintf(stderr,
                "usage: %s rt|cmp|add|sgn values shard nshards nrandom out "
                "[edges]\n",
                argv[0]);
        return 2;
    }
    const char *mode = argv[1];
    load_values(argv[2]);
    size_t shard = strtoul(argv[3], NULL, 10);
    size_t nshards = strtoul(argv[4], NULL, 10);
    size_t nrandom = strtoul(argv[5], NULL, 10);
    tr_open(argv[6]);
    tr_install_died(); /* an assertion inside an (unguarded) scalar call must not take the trace with it */
    rng_seed(env_seed());
    if (!strcmp(mode, "rt")) {
        mode_rt(shard, nshards, nrandom);
    } else if (!strcmp(mode, "cmp")) {
        mode_cmp(shard, nshards, nrandom);
    } else if (!strcmp(mode, "add")) {
        mode_add(argc > 7 ? argv[7] : "/dev/null", shard, nshards, nrandom);
    } else if (!strcmp(mode, "bits")) {
        mode_bits(shard, nshards, nrandom);
    } else if (!strcmp(mode, "sgn")) {
        mode_sgn(shard, nshards, nrandom);
    } else {
        return 2;
    }
    tr_close();
    return 0;
}
#endif
