/* Allocator seam (link with -Wl,--wrap=malloc,--wrap=calloc,--wrap=realloc,--wrap=free).
 *
 * While shim_on is set (the drivers set it only around library calls):
 *   - every allocation is counted (shim_calls), the largest request recorded;
 *   - shim_fail_at = k makes the k-th allocation of the call return NULL;
 *   - shim_fence = 1 places every block so that it ENDS at a PROT_NONE page:
 *     an overrun of a library-internal scratch buffer faults at once instead
 *     of corrupting the heap;
 *   - shim_cap > 0 refuses (and records) requests larger than shim_cap bytes;
 *   - live blocks are tracked so leaks are observable (shim_live()).
 * Outside shim_on the real allocator is used untouched. */
#ifndef VERIF_ALLOCSHIM_H
#define VERIF_ALLOCSHIM_H
#include <stddef.h>
extern volatile int shim_on;
extern volatile int shim_always; /* keep the shim active outside GUARDED sections too */
extern int shim_fence;
extern int shim_bypass;       /* 1 = hand every request to the real allocator untouched (C15: heap residue must reach the library) */
extern long shim_fail_at;     /* 0 = never */
extern long shim_calls;       /* allocations requested since shim_reset() */
extern long shim_failed;      /* how many returned NULL by injection */
extern size_t shim_max_req;   /* largest single request */
extern size_t shim_cap;       /* 0 = unlimited */
extern long shim_refused;     /* requests above shim_cap */
void shim_reset(void);
long shim_live(void);         /* tracked blocks currently live */
size_t shim_live_bytes(void);
void shim_forget_all(void);   /* after a fault: abandon tracking of leaked blocks */
#endif
