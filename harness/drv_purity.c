/* Purity driver (C15): each representative call is executed under every
 * schedule of context perturbations (stack painting, heap painting, a
 * previous library call) printed by spec/Purity.tla, and its complete output
 * is logged; the trace spec requires one result per call class.
 *
 *   drv_purity <schedules> <shard> <nshards> <proc-tag> <out.ndjson>
 *
 * schedules file: lines "S kind arg ; kind arg ; ..." (possibly empty). */
#define _GNU_SOURCE
#define DRV_CODECS_NO_MAIN 1
#include "drv_codecs.c"
#include "varintFloat.h"
#include "varintBitmap.h"
#define DRV_SCALAR_NO_MAIN
#include "drv_scalar.c"
#include <alloca.h>
#include <malloc.h>

/* --- context perturbations -------------------------------------------- */
static volatile uint8_t sink;
static __attribute__((noinline)) void paint_stack(const char *pat, uint64_t count) {
    size_t n = 96 * 1024;
    volatile uint8_t *p = alloca(n);
    uint64_t w = !strcmp(pat, "zero")      ? 0
                 : !strcmp(pat, "ones")    ? ~0ULL
                 : !strcmp(pat, "a5")      ? 0xA5A5A5A5A5A5A5A5ULL
                 : !strcmp(pat, "count")   ? count
                 : !strcmp(pat, "countm1") ? count - 1
                                           : 0;
    for (size_t i = 0; i + 8 <= n; i += 8) {
        uint64_t v = !strcmp(pat, "rand") ? rng_u64() : w;
        memcpy((void *)(p + i), &v, 8);
    }
    sink = p[rng_u64() % n];
}
/* Heap residue.  Two mechanisms:
 *  - "zero" / "ones" / "count": blocks of the sizes a call with `count`
 *    elements asks for (count * {1,2,4,8,16}, bitmaps, plus fixed sizes) are
 *    filled and freed, so that the call's own malloc()s are handed them back
 *    (M_PERTURB off, otherwise glibc would overwrite the residue);
 *  - "fill00" / "fillA1" / "fill7F" / "fillFE": glibc fills every block it
 *    hands out with that byte (M_PERTURB), which reaches every allocation of
 *    the call whatever its size. */
static int g_perturb = 0x5E;
static void set_perturb(int v) {
    g_perturb = v;
    mallopt(M_PERTURB, v);
}
static void paint_heap(const char *pat, uint64_t count) {
    if (!strncmp(pat, "fill", 4)) {
        unsigned fill = (unsigned)strtoul(pat + 4, NULL, 16);
        set_perturb((int)((~fill) & 0xFF)); /* allocation fill = ~value */
        return;
    }
    size_t sizes[40];
    int ns = 0;
    static const size_t fixed[] = {16, 24, 40, 48, 64, 72, 128, 200, 320, 600, 1024, 2400, 4096, 8192, 20000};
    for (int i = 0; i < 15; i++) {
        sizes[ns++] = fixed[i];
    }
    static const size_t mul[] = {1, 2, 4, 8, 16};
    for (int d = -3; d <= 3; d += 3) { /* this count, and the counts of the "other count" previous calls */
        if ((long long)count + d <= 0) {
            continue;
        }
        for (int i = 0; i < 5; i++) {
            sizes[ns++] = (size_t)((long long)count + d) * mul[i];
        }
    }
    sizes[ns++] = (count + 7) / 8;
    sizes[ns++] = (count + 63) / 64 * 8;
    void *blk[40 * 3];
    int k = 0;
    uint64_t w = !strcmp(pat, "zero") ? 0 : !strcmp(pat, "ones") ? ~0ULL : count;
    set_perturb(0);
    for (int rep = 0; rep < 3; rep++) {
        for (int i = 0; i < ns; i++) {
            size_t sz = sizes[i] ? sizes[i] : 1;
            uint8_t *b = malloc(sz);
            if (!b) {
                continue;
            }
            for (size_t j = 0; j + 8 <= sz; j += 8) {
                memcpy(b + j, &w, 8);
            }
            for (size_t j = sz & ~(size_t)7; j < sz; j++) {
                b[j] = (uint8_t)w;
            }
            blk[k++] = b;
        }
    }
    for (int i = 0; i < k; i++) {
        free(blk[i]);
    }
}

/* --- the calls under test ---------------------------------------------- */
typedef struct pcall {
    const char *codec;
    long param;
    size_t n;
    const char *shape;
    long sparam;
    int nullmeta; /* 1: the encoder is called with meta == NULL (its other code path) */
} pcall;
static const pcall CALLS[] = {
    {"delta_s", 0, 64, "randw", 0},   {"delta_u", 0, 64, "asc1", 0},   {"for", 0, 64, "rand8", 0},
    {"for_batch", 0, 64, "rand32", 0}, {"pfor", 95, 64, "cluster", 49}, {"pfor", 90, 300, "outlast", 0},
    {"group", 0, 9, "randw", 0},      {"dict", 0, 64, "fewuniq", 3},   {"rle", 0, 64, "runs", 5},
    {"rle_hdr", 0, 64, "runs", 2},    {"gamma", 0, 64, "rand8", 0},    {"edelta", 0, 64, "randw", 0},
    {"bp32", 0, 130, "rand32", 0},    {"bp64", 0, 130, "randw", 0},    {"bpd32", 0, 130, "rand32", 0},
    {"bpd64", 0, 130, "randw", 0},    {"adaptive", -1, 64, "fewuniq", 3}, {"adaptive", -1, 64, "asc16", 0},
    {"adaptive", -1, 64, "randw", 0}, {"adaptive", 0, 64, "asc1", 0},  {"adaptive", 1, 64, "rand8", 0},
    {"adaptive", 1, 4096, "rand8", 0}, {"adaptive", 2, 64, "cluster", 49}, {"adaptive", 3, 64, "fewuniq", 3},
    {"adaptive", 4, 64, "asc16", 0},  {"adaptive", 5, 64, "randw", 0},  {"adaptive", 1, 128, "asc1", 0},
    {"adaptive", 2, 300, "outlast", 0},
    /* every byte-width class of offsets / indices / values (3, 5, 6, 7 bytes are
     * the widths no machine word matches) */
    {"for", 0, 64, "altbits", 24},    {"for", 0, 64, "altbits", 40},    {"for", 0, 64, "altbits", 48},
    {"for", 0, 64, "altbits", 56},    {"for_batch", 0, 64, "altbits", 40}, {"pfor", 95, 64, "altbits", 40},
    {"pfor", 90, 64, "altbits", 56},  {"dict", 0, 64, "nine", 0},       {"group", 0, 9, "altbits", 40},
    {"delta_u", 0, 64, "altbits", 48}, {"rle", 0, 64, "altbits", 40},
    {"group", 0, 1, "randw", 0},      {"group", 0, 2, "rand8", 0},      {"group", 0, 5, "rand32", 0},
    {"group", 0, 7, "randw", 0},      {"group", 0, 63, "randw", 0},     {"group", 0, 64, "rand8", 0},
    /* the meta == NULL path of every encoder that documents the output as optional */
    {"for", 0, 64, "rand8", 0, 1},      {"for_batch", 0, 64, "rand32", 0, 1}, {"for_batch", 0, 16, "randw", 0, 1},
    {"for", 0, 7, "altbits", 40, 1},    {"rle", 0, 64, "runs", 5, 1},         {"rle_hdr", 0, 64, "runs", 2, 1},
    {"gamma", 0, 64, "rand8", 0, 1},    {"edelta", 0, 64, "randw", 0, 1},     {"bp32", 0, 130, "rand32", 0, 1},
    {"bp64", 0, 130, "randw", 0, 1},    {"bpd64", 0, 130, "randw", 0, 1},     {"adaptive", -1, 64, "randw", 0, 1},
    {"adaptive", 1, 64, "rand8", 0, 1}, {"adaptive", 2, 64, "cluster", 49, 1}, {"adaptive", -1, 300, "asc16", 0, 1},
    /* the widest values of every codec (64-bit codes, 9-byte varints, 64-bit blocks) */
    {"edelta", 0, 8, "nine", 0},      {"edelta", 0, 64, "max64", 0},    {"gamma", 0, 8, "nine", 0},
    {"gamma", 0, 64, "rand64", 0},    {"bp64", 0, 64, "max64", 0},      {"bpd64", 0, 64, "rand64", 0},
    {"delta_u", 0, 64, "nine", 0},    {"delta_s", 0, 64, "rand64", 0},  {"rle", 0, 64, "nine", 0},
    {"dict", 0, 64, "rand64", 0},     {"for", 0, 64, "rand64", 0},      {"pfor", 99, 64, "nine", 0},
    {"group", 0, 9, "nine", 0},       {"adaptive", -1, 64, "nine", 0},
    /* inputs long enough for any "only worth it for large arrays" shortcut */
    {"adaptive", -1, 300, "randw", 0}, {"adaptive", -1, 300, "asc16", 0}, {"adaptive", -1, 300, "cluster", 49},
    {"adaptive", -1, 1000, "fewuniq", 3}, {"for", 0, 300, "rand32", 0}, {"pfor", 95, 1000, "cluster", 49},
    {"dict", 0, 1000, "fewuniq", 255}, {"bp64", 0, 1000, "randw", 0}, {"rle", 0, 1000, "runs", 5},
    /* short inputs: a single partial block / fewer elements than any internal
     * batch, where scratch arrays are only partly written by the call itself */
    {"bp32", 0, 7, "rand32", 0},      {"bp64", 0, 7, "randw", 0},      {"bpd32", 0, 7, "rand32", 0},
    {"bpd64", 0, 7, "randw", 0},      {"bpd64", 0, 3, "asc1", 0},      {"bp64", 0, 128, "rand8", 0},
    {"for", 0, 7, "randw", 0},        {"for_batch", 0, 5, "rand8", 0}, {"pfor", 95, 7, "cluster", 200},
    {"delta_u", 0, 3, "randw", 0},    {"delta_s", 0, 5, "rand32", 0},  {"rle", 0, 7, "runs", 3},
    {"rle_hdr", 0, 5, "runs", 2},     {"dict", 0, 7, "fewuniq", 3},    {"gamma", 0, 7, "rand8", 0},
    {"edelta", 0, 5, "randw", 0},     {"group", 0, 3, "randw", 0},     {"adaptive", -1, 7, "randw", 0},
    {"adaptive", -1, 5, "asc16", 0},
    /* float codec: param = precision * 10 + exponent mode; "specials" mixes
     * zeros, infinities, NaNs and subnormals (from index 2 on) with normals */
    {"float", 0, 64, "specials", 0},  {"float", 11, 64, "specials", 0}, {"float", 22, 64, "specials", 0},
    {"float", 30, 37, "specials", 0}, {"float", 12, 64, "normals", 0},  {"float", 21, 130, "normals", 0},
    {"float", 1, 9, "specials", 0},
    /* set object: a history of operations (shape), then the serialisation and
     * the exported members; every container conversion sits in one of them */
    {"bitmap", 0, 0, "runs_add", 0},       {"bitmap", 0, 0, "runs_remove", 0},   {"bitmap", 0, 0, "runs_add8", 0},
    {"bitmap", 0, 0, "runs_small_add", 0}, {"bitmap", 0, 0, "runs_small_remove", 0},
    {"bitmap", 0, 0, "array_grow", 0},     {"bitmap", 0, 0, "bitmap_shrink", 0}, {"bitmap", 0, 0, "ranges", 0},
    {"bitmap", 0, 0, "algebra", 0},        {"bitmap", 0, 0, "recoded", 0},       {"bitmap", 0, 0, "many", 0},
    {"bitmap", 0, 0, "optimize", 0},
    /* scalar varints: every put / get entry point of a family (param: 0 tagged,
     * 1 external, 2 chained, 3 split families) on the boundary domain that
     * ScalarGen.tla generates (VERIF_SCALAR_VALUES); the destination window's
     * previous content differs from schedule to schedule */
    /* dictionary object: histories of builds, then encode / find with it (values
     * outside the dictionary included: the documented answer is 0 / -1) */
    {"dictobj", 0, 0, "rebuild_small", 0}, {"dictobj", 0, 0, "rebuild_large", 0}, {"dictobj", 0, 0, "miss_high", 0},
    {"dictobj", 0, 0, "miss_fresh", 0},    {"dictobj", 0, 0, "miss_low", 0},      {"dictobj", 0, 0, "find", 0},
    {"dictobj", 0, 0, "patterns", 0},
    {"scalar", 0, 0, "boundary", 0},       {"scalar", 1, 0, "boundary", 0},
    {"scalar", 2, 0, "boundary", 0},       {"scalar", 3, 0, "boundary", 0},
};
#define NCALLS (sizeof(CALLS) / sizeof(CALLS[0]))

/* Both the previous call and the call under test enter the library through
 * this one trampoline, invoked from the same frame of run_call: their callee
 * frames (and any uninitialised local in them) then occupy the same stack
 * addresses, exactly as for an application that calls the same API twice. */
static __attribute__((noinline)) void tramp(int codec, long param, uint8_t *dst,
                                            const uint64_t *xs, const uint32_t *x32,
                                            size_t n, enc_out *o) {
    encode_into(codec, param, dst, xs, x32, n, o);
}

/* arguments of a previous call: the SAME entry point (codec, parameter) on
 * different data of n values, or another codec */
typedef struct prevargs {
    int codec;
    long param;
    size_t n;
    uint64_t *xs;
    uint32_t *x32;
    uint8_t *buf;
} prevargs;
static void prev_prepare(prevargs *p, int codec, long param, size_t n, uint64_t salt) {
    p->codec = codec;
    p->param = param;
    p->xs = malloc((n + 4) * 8);
    p->x32 = malloc((n + 4) * 4);
    for (size_t i = 0; i < n; i++) {
        p->xs[i] = 1000000000000ULL * (salt % 3) + 1000 + ((i * 2654435761ULL + salt) % 60000) +
                   (i % 31 == 30 ? salt << 28 : 0);
    }
    adapted_n = n;
    adapt(codec, param, n, p->xs);
    p->n = adapted_n;
    for (size_t i = 0; i < p->n; i++) {
        p->x32[i] = (uint32_t)p->xs[i];
    }
    int exact;
    size_t bound = bound_of(codec, param, p->xs, p->x32, p->n, &exact);
    p->buf = malloc(bound + 64 + p->n * 20);
}
static void prev_release(prevargs *p) {
    free(p->xs);
    free(p->x32);
    free(p->buf);
}

/* float calls: values are a function of (shape, n, salt) only */
static void float_values(const char *shape, size_t n, uint64_t salt, double *out) {
    static const uint64_t SPEC[] = {0x0ULL, 0x8000000000000000ULL, 0x7FF0000000000000ULL, 0xFFF0000000000000ULL,
                                    0x7FF8000000000001ULL, 0x1ULL, 0x800FFFFFFFFFFFFFULL};
    for (size_t i = 0; i < n; i++) {
        uint64_t h = (i + 1) * 0x9E3779B97F4A7C15ULL + salt * 0xD1B54A32D192ED03ULL;
        h ^= h >> 29;
        uint64_t b = ((h & 1) << 63) | ((uint64_t)(1023 - 20 + (h >> 8) % 40) << 52) | ((h >> 12) & ((1ULL << 52) - 1));
        int special = !strcmp(shape, "specials") && i >= 2 && ((i + salt) % 3 != 0);
        if (!strcmp(shape, "allspecial")) {
            special = 1;
        }
        if (special) {
            b = SPEC[(i + salt) % 7];
        }
        if (!strcmp(shape, "negnormals")) {
            b |= 1ULL << 63;
        }
        memcpy(&out[i], &b, 8);
    }
}
static __attribute__((noinline)) size_t ftramp(uint8_t *dst, const double *v, size_t n, int prec, int mode) {
    return varintFloatEncode(dst, v, n, (varintFloatPrecision)prec, (varintFloatEncodingMode)mode);
}
static __attribute__((noinline)) size_t fdtramp(const uint8_t *src, size_t n, double *out) {
    return varintFloatDecode(src, n, out);
}
static void float_prev(const char *arg, const pcall *c) {
    int prec = (int)(c->param / 10), mode = (int)(c->param % 10);
    const char *shapes[3];
    size_t ns = 0, n = c->n;
    if (!strcmp(arg, "same_api_same_count") || !strcmp(arg, "same_buffer")) {
        shapes[ns++] = "allspecial";
        shapes[ns++] = "negnormals";
    } else if (!strcmp(arg, "same_api_other_count")) {
        n = c->n + 3;
        shapes[ns++] = "allspecial";
    } else {
        prec = (prec + 1) % 4;
        mode = (mode + 1) % 3;
        shapes[ns++] = "specials";
    }
    for (size_t q = 0; q < ns; q++) {
        double *v = malloc((n + 1) * 8);
        float_values(shapes[q], n, 5 + q, v);
        uint8_t *buf = malloc(varintFloatMaxEncodedSize(n, (varintFloatPrecision)prec) + 64);
        double *back = malloc((n + 1) * 8);
        size_t w = 0;
        int pf = GUARDED(w = ftramp(buf, v, n, prec, mode));
        if (!pf && w) {
            (void)GUARDED(fdtramp(buf, n, back));
        }
        free(v);
        free(buf);
        free(back);
    }
}
static void apply_sched(const char *sched, size_t n, size_t ci,
                        void (*prev)(const char *arg, const void *ctx), const void *ctx) {
    char tmp[512];
    strncpy(tmp, sched, sizeof(tmp) - 1);
    tmp[sizeof(tmp) - 1] = 0;
    rng_seed(env_seed() * 31337ULL + ci);
    char *save = NULL;
    for (char *tok = strtok_r(tmp, ";", &save); tok; tok = strtok_r(NULL, ";", &save)) {
        char kind[16], arg[32];
        if (sscanf(tok, " %15s %31s", kind, arg) != 2) {
            continue;
        }
        if (!strcmp(kind, "stack")) {
            paint_stack(arg, n);
        } else if (!strcmp(kind, "heap")) {
            paint_heap(arg, n);
        } else if (!strcmp(kind, "prev")) {
            prev(arg, ctx);
        }
    }
}
static void float_prev_cb(const char *arg, const void *ctx) {
    float_prev(arg, (const pcall *)ctx);
}
static void run_float_call(size_t ci, const char *sched, const char *proc) {
    const pcall *c = &CALLS[ci];
    int prec = (int)(c->param / 10), mode = (int)(c->param % 10);
    size_t n = c->n;
    double *v = malloc((n + 1) * 8);
    float_values(c->shape, n, 1, v);
    size_t room = varintFloatMaxEncodedSize(n, (varintFloatPrecision)prec) + 64;
    uint8_t *dst = malloc(room);
    {
        uint64_t hs = 1469598103934665603ULL;
        for (const char *q = sched; *q; q++) {
            hs = (hs ^ (uint8_t)*q) * 1099511628211ULL;
        }
        memset(dst, (int)(hs % 251), room);
    }
    double *ys = malloc((n + 1) * 8);
    memset(ys, 0, (n + 1) * 8);
    apply_sched(sched, n, ci, float_prev_cb, c);
    size_t written = 0, consumed = 0;
    int f = GUARDED(written = ftramp(dst, v, n, prec, mode));
    int df = 0;
    if (!f && written > 0 && written <= room) {
        df = GUARDED(consumed = fdtramp(dst, n, ys));
    }
    set_perturb(0x5E);
    uint64_t h = 1469598103934665603ULL;
    for (size_t i = 0; !f && i < written && i < room; i++) {
        h = (h ^ dst[i]) * 1099511628211ULL;
    }
    uint64_t hy = 1469598103934665603ULL;
    for (size_t i = 0; !f && !df && i < n; i++) {
        uint64_t b;
        memcpy(&b, &ys[i], 8);
        hy = (hy ^ b) * 1099511628211ULL;
    }
    ev_begin("Call");
    char id[96];
    snprintf(id, sizeof(id), "%s/%ld/%zu/%s/%ld", c->codec, c->param, c->n, c->shape, c->sparam);
    ev_str("id", id);
    ev_str("proc", proc);
    ev_str("sched", sched);
    ev_int("fault", f ? f : df);
    ev_int("written", f ? -1 : (long long)written);
    ev_limbs("digest", h);
    ev_int("decoded", (long long)consumed);
    ev_limbs("ydigest", hy);
    ev_bytes("head", dst, f ? 0 : (written < 40 ? written : 40));
    ev_end();
    free(v);
    free(dst);
    free(ys);
}

static void repaint(const char *sched, size_t n);
/* the call class being exercised, for the late-crash hook */
static char g_cur_id[96];
static const char *g_cur_sched = "", *g_cur_proc = "";

/* --- set-object histories ------------------------------------------------ */
static varintBitmap *bm_from_runs(const uint16_t *pairs, uint32_t nruns) {
    /* a run container as another writer would have serialised it */
    uint8_t buf[9 + 4 * 16];
    uint32_t card = 0;
    for (uint32_t i = 0; i < nruns; i++) {
        card += pairs[2 * i + 1];
    }
    buf[0] = (uint8_t)VARINT_BITMAP_RUNS;
    memcpy(buf + 1, &card, 4);
    memcpy(buf + 5, &nruns, 4);
    memcpy(buf + 9, pairs, nruns * 4);
    return varintBitmapDecode(buf, 9 + nruns * 4);
}
static __attribute__((noinline)) varintBitmap *bm_history(const char *h, uint64_t salt) {
    varintBitmap *vb = varintBitmapCreate();
    uint16_t k = (uint16_t)(salt % 7); /* previous calls use other contents */
    if (!strcmp(h, "runs_add")) {
        varintBitmapAddRange(vb, (uint16_t)(3 + k), (uint16_t)(6000 + k));
        varintBitmapAdd(vb, (uint16_t)(7000 + k));
    } else if (!strcmp(h, "runs_add8")) {
        varintBitmapAddRange(vb, (uint16_t)(13 + k), (uint16_t)(9000 + k));
        varintBitmapAdd(vb, (uint16_t)(9002 + k));
        varintBitmapAdd(vb, 2);
    } else if (!strcmp(h, "runs_remove")) {
        varintBitmapAddRange(vb, (uint16_t)(5 + k), (uint16_t)(6001 + k));
        varintBitmapRemove(vb, (uint16_t)(100 + k));
    } else if (!strcmp(h, "runs_small_add") || !strcmp(h, "runs_small_remove")) {
        uint16_t pairs[] = {(uint16_t)(1 + k), 10, (uint16_t)(100 + k), 3, (uint16_t)(65000 + k), 21};
        varintBitmapFree(vb);
        vb = bm_from_runs(pairs, 3);
        if (vb && !strcmp(h, "runs_small_add")) {
            varintBitmapAdd(vb, (uint16_t)(50 + k));
        } else if (vb) {
            varintBitmapRemove(vb, (uint16_t)(5 + k));
        }
    } else if (!strcmp(h, "array_grow")) {
        for (uint32_t i = 0; i < 4100; i++) {
            varintBitmapAdd(vb, (uint16_t)(i * 13 + 3 + k)); /* crosses 4096 members: array -> bitmap */
        }
    } else if (!strcmp(h, "bitmap_shrink")) {
        for (uint32_t i = 0; i < 4200; i++) {
            varintBitmapAdd(vb, (uint16_t)(i * 11 + 1 + k));
        }
        for (uint32_t i = 0; i < 300; i++) {
            varintBitmapRemove(vb, (uint16_t)(i * 11 + 1 + k)); /* back below 4096: bitmap -> array */
        }
    } else if (!strcmp(h, "ranges")) {
        varintBitmapAddRange(vb, (uint16_t)(10 + k), (uint16_t)(200 + k));
        varintBitmapAddRange(vb, (uint16_t)(4000 + k), (uint16_t)(9000 + k));
        varintBitmapRemoveRange(vb, (uint16_t)(4500 + k), (uint16_t)(8800 + k));
        varintBitmapAddRange(vb, (uint16_t)(60000 + k), 65535);
    } else if (!strcmp(h, "algebra")) {
        varintBitmap *a = varintBitmapCreate(), *b = varintBitmapCreate();
        varintBitmapAddRange(a, (uint16_t)(1 + k), (uint16_t)(5000 + k));
        for (uint32_t i = 0; i < 900; i++) {
            varintBitmapAdd(b, (uint16_t)(i * 7 + k));
        }
        varintBitmap *o = varintBitmapOr(a, b), *x = varintBitmapXor(a, b), *d = varintBitmapAndNot(o, x);
        varintBitmap *r = varintBitmapAnd(d, a);
        varintBitmapFree(vb);
        vb = r;
        varintBitmapFree(a);
        varintBitmapFree(b);
        varintBitmapFree(o);
        varintBitmapFree(x);
        varintBitmapFree(d);
    } else if (!strcmp(h, "recoded")) {
        for (uint32_t i = 0; i < 5000; i++) {
            varintBitmapAdd(vb, (uint16_t)(i * 5 + k));
        }
        uint8_t *buf = malloc(varintBitmapSizeBytes(vb) + 64);
        size_t w = varintBitmapEncode(vb, buf);
        varintBitmap *c = varintBitmapDecode(buf, w);
        free(buf);
        varintBitmapFree(vb);
        vb = c;
        if (vb) {
            varintBitmapAdd(vb, (uint16_t)(3 + k));
        }
    } else if (!strcmp(h, "many")) {
        uint16_t vals[600];
        for (uint32_t i = 0; i < 600; i++) {
            vals[i] = (uint16_t)((i * 2654435761u + k) >> 7);
        }
        varintBitmapAddMany(vb, vals, 600);
        varintBitmap *c = varintBitmapClone(vb);
        varintBitmapFree(vb);
        vb = c;
    } else if (!strcmp(h, "optimize")) {
        for (uint32_t i = 0; i < 3000; i++) {
            varintBitmapAdd(vb, (uint16_t)(20 + k + i));
        }
        varintBitmapOptimize(vb);
        if (vb) {
            varintBitmapAdd(vb, (uint16_t)(9 + k));
        }
    }
    return vb;
}
static const char *BM_HIST[] = {"runs_add", "runs_remove", "runs_add8", "runs_small_add", "runs_small_remove", "array_grow",
                                "bitmap_shrink", "ranges", "algebra", "recoded", "many", "optimize"};
static void bitmap_prev_cb(const char *arg, const void *ctx) {
    const pcall *c = (const pcall *)ctx;
    /* the same history on other contents, or another history; dropped again: its blocks are the residue */
    const char *h = c->shape;
    if (strncmp(arg, "same", 4)) {
        size_t i = 0;
        while (strcmp(BM_HIST[i], c->shape)) {
            i++;
        }
        h = BM_HIST[(i + 5) % 12];
    }
    for (uint64_t salt = 1; salt <= 2; salt++) {
        varintBitmap *p = NULL;
        int pf = GUARDED(p = bm_history(h, salt));
        if (!pf && p) {
            /* leave every bit of its storage set before it goes back to the allocator */
            (void)GUARDED(varintBitmapAddRange(p, 0, 65535));
            (void)GUARDED(varintBitmapFree(p));
        }
    }
}
static void run_bitmap_call(size_t ci, const char *sched, const char *proc) {
    const pcall *c = &CALLS[ci];
    apply_sched(sched, 8192, ci, bitmap_prev_cb, c);
    varintBitmap *vb = NULL;
    int f = GUARDED(vb = bm_history(c->shape, 0));
    size_t room = 8192 + 64 + 65536 * 2, written = 0;
    uint8_t *dst = NULL;
    uint16_t *members = NULL;
    uint32_t nm = 0, card = 0;
    int df = 0;
    if (!f && vb) {
        repaint(sched, 8192);
        dst = malloc(room);
        memset(dst, 0x3C, room);
        members = malloc(65536 * 2);
        memset(members, 0, 65536 * 2);
        f = GUARDED(written = varintBitmapEncode(vb, dst));
        df = GUARDED(nm = varintBitmapToArray(vb, members));
        df = df ? df : GUARDED(card = varintBitmapCardinality(vb));
    }
    set_perturb(0x5E);
    uint64_t h = 1469598103934665603ULL, hy = 1469598103934665603ULL;
    for (size_t i = 0; !f && dst && i < written && i < room; i++) {
        h = (h ^ dst[i]) * 1099511628211ULL;
    }
    for (size_t i = 0; !f && !df && members && i < nm; i++) {
        hy = (hy ^ members[i]) * 1099511628211ULL;
    }
    hy = (hy ^ card) * 1099511628211ULL;
    ev_begin("Call");
    ev_str("id", g_cur_id);
    ev_str("proc", proc);
    ev_str("sched", sched);
    ev_int("fault", f ? f : (vb ? df : 1));
    ev_int("written", f || !vb ? -1 : (long long)written);
    ev_limbs("digest", h);
    ev_int("decoded", (long long)nm);
    ev_limbs("ydigest", hy);
    ev_bytes("head", dst ? dst : (const uint8_t *)"", f || !dst ? 0 : (written < 40 ? written : 40));
    ev_end();
    if (vb) {
        (void)GUARDED(varintBitmapFree(vb));
    }
    free(dst);
    free(members);
}



/* --- dictionary-object histories ----------------------------------------- */
static __attribute__((noinline)) size_t dict_history(const char *h, uint64_t salt, uint8_t *dst, uint64_t *aux) {
    varintDict *d = varintDictCreate();
    uint64_t a[300], b[40], q[8];
    size_t w = 0;
    if (!d) {
        return 0;
    }
    for (size_t i = 0; i < 300; i++) {
        a[i] = 1000 + 7 * i + salt;
    }
    for (size_t i = 0; i < 40; i++) {
        b[i] = 10 * (i % 10 + 1) + salt;
    }
    *aux = 0;
    if (!strcmp(h, "rebuild_small")) {
        varintDictBuild(d, a, 300);
        varintDictBuild(d, b, 40);
        w = varintDictEncodeWithDict(dst, d, b, 40);
    } else if (!strcmp(h, "rebuild_large")) {
        varintDictBuild(d, b, 40);
        varintDictBuild(d, a, 300);
        w = varintDictEncodeWithDict(dst, d, a, 300);
    } else if (!strncmp(h, "miss_", 5)) {
        if (!strcmp(h, "miss_high")) {
            varintDictBuild(d, a, 20); /* a larger dictionary first: its entries stay behind the new end */
        }
        varintDictBuild(d, b, 40);
        q[0] = b[0];
        q[1] = b[9];
        q[2] = !strcmp(h, "miss_low") ? 1 + salt : !strcmp(h, "miss_high") ? a[10] : 5000 + salt;
        w = varintDictEncodeWithDict(dst, d, q, 3); /* documented: 0, a value is not in the dictionary */
    } else if (!strcmp(h, "patterns")) {
        /* values above every entry that coincide with what the storage behind the last entry may hold:
         * the residue patterns of the schedules (all ones, the allocation fills, the painted count) */
        static const uint64_t PAT[] = {~(uint64_t)0, 0xFEFEFEFEFEFEFEFEULL, 0xA1A1A1A1A1A1A1A1ULL,
                                       0x7F7F7F7F7F7F7F7FULL, 0x4242};
        varintDictBuild(d, b, 40);
        q[0] = b[0];
        q[1] = b[9];
        for (size_t k = 0; k < 5; k++) {
            q[2] = PAT[k];
            w += varintDictEncodeWithDict(dst, d, q, 3); /* 0 each time */
            *aux = *aux * 31 + (uint64_t)(int64_t)varintDictFind(d, PAT[k]);
        }
    } else {
        varintDictBuild(d, a, 300);
        varintDictBuild(d, b, 40);
        uint64_t acc = 0;
        uint64_t probes[] = {0, 1 + salt, b[0], b[0] + 1, b[9], b[9] + 1, a[5], ~(uint64_t)0};
        for (size_t i = 0; i < 8; i++) {
            acc = acc * 31 + (uint64_t)(int64_t)varintDictFind(d, probes[i]);
        }
        acc = acc * 31 + varintDictLookup(d, 0) + varintDictLookup(d, 9);
        *aux = acc;
    }
    varintDictFree(d);
    return w;
}
static void dictobj_prev_cb(const char *arg, const void *ctx) {
    const pcall *c = (const pcall *)ctx;
    static uint8_t scratch[8192];
    uint64_t aux;
    const char *h = strncmp(arg, "same", 4) ? "rebuild_large" : c->shape;
    for (uint64_t salt = 3; salt <= 4; salt++) {
        (void)GUARDED(dict_history(h, salt, scratch, &aux));
    }
}
static void run_dictobj_call(size_t ci, const char *sched, const char *proc) {
    const pcall *c = &CALLS[ci];
    apply_sched(sched, 0x4242, ci, dictobj_prev_cb, c);
    uint8_t *dst = malloc(8192);
    memset(dst, 0x3C, 8192);
    size_t written = 0;
    uint64_t aux = 0;
    int f = GUARDED(written = dict_history(c->shape, 0, dst, &aux));
    set_perturb(0x5E);
    uint64_t h = 1469598103934665603ULL;
    for (size_t i = 0; !f && i < written && i < 8192; i++) {
        h = (h ^ dst[i]) * 1099511628211ULL;
    }
    ev_begin("Call");
    ev_str("id", g_cur_id);
    ev_str("proc", proc);
    ev_str("sched", sched);
    ev_int("fault", f);
    ev_int("written", f ? -1 : (long long)written);
    ev_limbs("digest", h);
    ev_int("decoded", 0);
    ev_limbs("ydigest", aux);
    ev_bytes("head", dst, f ? 0 : (written < 40 ? written : 40));
    ev_end();
    free(dst);
}

/* --- scalar varints -------------------------------------------------------- */
static uint64_t g_sc_h, g_sc_hy;
static long long g_sc_bytes, g_sc_calls;
static void scalar_hook(const char *fam, const char *put, uint64_t v, int w, int start, int pret, int gret,
                        uint64_t val) {
    (void)fam;
    (void)put;
    (void)v;
    (void)w;
    /* exactly the bytes the encoder reports as written, the lengths, the decoded value */
    for (int i = 0; i < pret && start + i < WIN; i++) {
        g_sc_h = (g_sc_h ^ win[start + i]) * 1099511628211ULL;
    }
    g_sc_h = (g_sc_h ^ (uint64_t)(pret & 255)) * 1099511628211ULL;
    g_sc_hy = (g_sc_hy ^ val) * 1099511628211ULL;
    g_sc_hy = (g_sc_hy ^ (uint64_t)(gret & 255)) * 1099511628211ULL;
    g_sc_bytes += pret > 0 ? pret : 0;
    g_sc_calls++;
}
static __attribute__((noinline)) void scalar_family(long fam, uint64_t v) {
    switch (fam) {
    case 0:
        do_tagged(v);
        break;
    case 1:
        do_ext(v);
        break;
    case 2:
        do_chained(v);
        break;
    default:
        do_split(v);
        break;
    }
}
static void scalar_prev_cb(const char *arg, const void *ctx) {
    const pcall *c = (const pcall *)ctx;
    long fam = strncmp(arg, "same", 4) ? (c->param + 1) % 4 : c->param;
    g_win_salt = 0x77;
    for (size_t i = 0; i < nvals; i += 37) {
        scalar_family(fam, ~vals[i]);
    }
}
static void run_scalar_call(size_t ci, const char *sched, const char *proc) {
    const pcall *c = &CALLS[ci];
    static int loaded;
    if (!loaded) {
        loaded = 1;
        if (getenv("VERIF_SCALAR_VALUES")) {
            load_values(getenv("VERIF_SCALAR_VALUES"));
        }
    }
    if (nvals == 0) {
        return;
    }
    g_rt_hook = scalar_hook;
    apply_sched(sched, 64, ci, scalar_prev_cb, c);
    uint64_t hs = 1469598103934665603ULL;
    for (const char *q = sched; *q; q++) {
        hs = (hs ^ (uint8_t)*q) * 1099511628211ULL;
    }
    g_win_salt = (unsigned)(hs % 251);
    fillctr = 0;
    g_sc_h = g_sc_hy = 1469598103934665603ULL;
    g_sc_bytes = g_sc_calls = 0;
    int f = 0;
    for (size_t i = 0; i < nvals && !f; i++) {
        f = GUARDED(scalar_family(c->param, vals[i]));
    }
    set_perturb(0x5E);
    ev_begin("Call");
    ev_str("id", g_cur_id);
    ev_str("proc", proc);
    ev_str("sched", sched);
    ev_int("fault", f);
    ev_int("written", f ? -1 : g_sc_bytes);
    ev_limbs("digest", g_sc_h);
    ev_int("decoded", g_sc_calls);
    ev_limbs("ydigest", g_sc_hy);
    ev_bytes("head", (const uint8_t *)"", 0);
    ev_end();
}

/* the stack / heap paints of a schedule, once more (directly before a reader) */
static void repaint(const char *sched, size_t n) {
    char tmp[512];
    strncpy(tmp, sched, sizeof(tmp) - 1);
    tmp[sizeof(tmp) - 1] = 0;
    char *save = NULL;
    for (char *tok = strtok_r(tmp, ";", &save); tok; tok = strtok_r(NULL, ";", &save)) {
        char kind[16], arg[32];
        if (sscanf(tok, " %15s %31s", kind, arg) != 2) {
            continue;
        }
        if (!strcmp(kind, "stack")) {
            paint_stack(arg, n);
        } else if (!strcmp(kind, "heap")) {
            paint_heap(arg, n);
        }
    }
}

static void late_crash(int sig) {
    (void)sig;
    /* the heap was corrupted by a library call of this class under this
     * schedule: a crash under a perturbed context */
    ev_begin("Call");
    ev_str("id", g_cur_id);
    ev_str("proc", g_cur_proc);
    ev_str("sched", g_cur_sched);
    ev_int("fault", 4);
    ev_int("written", -1);
    ev_limbs("digest", 0);
    ev_int("decoded", 0);
    ev_limbs("ydigest", 0);
    ev_bytes("head", (const uint8_t *)"", 0);
    ev_end();
    tr_close();
    _exit(0);
}

static void run_call(size_t ci, const char *sched, const char *proc) {
    const pcall *c = &CALLS[ci];
    snprintf(g_cur_id, sizeof(g_cur_id), "%s/%ld/%zu/%s/%ld%s", c->codec, c->param, c->n, c->shape, c->sparam,
             c->nullmeta ? "/nm" : "");
    g_null_meta = c->nullmeta; /* holds for the previous calls of the schedule too */
    g_cur_sched = sched;
    g_cur_proc = proc;
    g_late_crash = late_crash;
    if (!strcmp(c->codec, "float")) {
        run_float_call(ci, sched, proc);
        return;
    }
    if (!strcmp(c->codec, "bitmap")) {
        run_bitmap_call(ci, sched, proc);
        return;
    }
    if (!strcmp(c->codec, "scalar")) {
        run_scalar_call(ci, sched, proc);
        return;
    }
    if (!strcmp(c->codec, "dictobj")) {
        run_dictobj_call(ci, sched, proc);
        return;
    }
    int codec = -1;
    for (int i = 0; i < C_NCODEC; i++) {
        if (!strcmp(c->codec, CODEC[i])) {
            codec = i;
        }
    }
    /* the arguments are a function of the call class only */
    rng_seed(0xC15ULL * 1000003ULL + ci);
    size_t n = c->n;
    uint64_t *xs = malloc((n + 1) * 8);
    uint32_t *x32 = malloc((n + 1) * 4);
    gen_shape(c->shape, n, c->sparam, xs);
    adapted_n = n;
    adapt(codec, c->param, n, xs);
    n = adapted_n;
    for (size_t i = 0; i < n; i++) {
        x32[i] = (uint32_t)xs[i];
    }
    int exact;
    size_t bound = bound_of(codec, c->param, xs, x32, n, &exact);
    size_t room = bound + 64 + n * 20;
    uint8_t *dst = malloc(room);
    {
        /* the destination buffer is context too: what it held before the call
         * differs from schedule to schedule; only the bytes the encoder
         * reports as written are compared */
        uint64_t hs = 1469598103934665603ULL;
        for (const char *q = sched; *q; q++) {
            hs = (hs ^ (uint8_t)*q) * 1099511628211ULL;
        }
        memset(dst, (int)(hs % 251), room);
    }

    /* apply the schedule */
    char tmp[512];
    strncpy(tmp, sched, sizeof(tmp) - 1);
    tmp[sizeof(tmp) - 1] = 0;
    rng_seed(env_seed() * 31337ULL + ci);
    char *save = NULL;
    for (char *tok = strtok_r(tmp, ";", &save); tok; tok = strtok_r(NULL, ";", &save)) {
        char kind[16], arg[32];
        if (sscanf(tok, " %15s %31s", kind, arg) != 2) {
            continue;
        }
        if (!strcmp(kind, "stack")) {
            paint_stack(arg, n);
        } else if (!strcmp(kind, "heap")) {
            paint_heap(arg, n);
        } else if (!strcmp(kind, "prev")) {
            /* guarded: a crash of the previous call is that call's problem,
             * it only serves to leave residue here */
            prevargs pa[2];
            int npa = 0;
            if (!strcmp(arg, "same_buffer")) {
                /* refill the very buffer of the call under test: same address,
                 * count, first and last element, other interior */
                uint64_t *keep = malloc((n + 1) * 8);
                uint32_t *keep32 = malloc((n + 1) * 4);
                memcpy(keep, xs, n * 8);
                memcpy(keep32, x32, n * 4);
                for (size_t i = 1; i + 1 < n; i++) {
                    xs[i] = (i % 2) ? xs[0] : xs[i - 1];
                    x32[i] = (uint32_t)xs[i];
                }
                uint8_t *pbuf = malloc(room);
                enc_out po;
                memset(&po, 0, sizeof(po));
                (void)GUARDED(tramp(codec, c->param, pbuf, xs, x32, n, &po));
                free(pbuf);
                memcpy(xs, keep, n * 8);
                memcpy(x32, keep32, n * 4);
                free(keep);
                free(keep32);
            } else if (!strcmp(arg, "same_api_same_count")) {
                prev_prepare(&pa[npa++], codec, c->param, c->n, 7);
            } else if (!strcmp(arg, "same_api_other_count")) {
                prev_prepare(&pa[npa++], codec, c->param, c->n + 3, 11);
            } else {
                int oc = codec == C_FOR ? C_PFOR : C_FOR;
                prev_prepare(&pa[npa++], oc, oc == C_PFOR ? 95 : 0, c->n, 13);
                if (codec == C_ADAPTIVE) {
                    prev_prepare(&pa[npa++], C_ADAPTIVE, c->param == 1 ? 2 : 1, c->n, 17);
                }
            }
            for (int q = 0; q < npa; q++) {
                enc_out po;
                memset(&po, 0, sizeof(po));
                (void)GUARDED(tramp(pa[q].codec, pa[q].param, pa[q].buf, pa[q].xs, pa[q].x32, pa[q].n, &po));
                prev_release(&pa[q]);
            }
        }
    }
    enc_out o;
    memset(&o, 0, sizeof(o));
    meta_clear(&o);
    int f = GUARDED(tramp(codec, c->param, dst, xs, x32, n, &o));
    /* every reader of what was produced (bulk decoders, random access, block
     * readers) under the same context perturbation: the paints of the
     * schedule are applied again directly before each reader, and everything
     * the readers report (values, counts, faults) is folded into one digest
     * by capturing the events they would log */
    size_t dn = 0;
    int df = 0;
    uint64_t hy = 1469598103934665603ULL;
    if (!f && o.written > 0 && o.written <= room) {
        gbuf src = gb_alloc(o.written);
        memcpy(src.p, dst, o.written);
        char *mbuf = NULL;
        size_t mlen = 0;
        FILE *keep_f = tr_f;
        FILE *mem_f = open_memstream(&mbuf, &mlen);
        for (int k = 0;; k++) {
            const char *api = full_readers(codec, k);
            if (!api) {
                break;
            }
            repaint(sched, n);
            rng_seed(0xDECULL + ci);
            tr_f = mem_f;
            run_decode(codec, c->param, api, &src, o.written, o.bits, n, n);
            tr_f = keep_f;
            dn++;
        }
        repaint(sched, n);
        rng_seed(0xDECULL + ci);
        tr_f = mem_f;
        run_random_access(codec, &src, o.written, n);
        tr_f = keep_f;
        fclose(mem_f);
        for (size_t i = 0; i < mlen; i++) {
            hy = (hy ^ (uint8_t)mbuf[i]) * 1099511628211ULL;
        }
        df = mbuf && strstr(mbuf, "\"fault\":1") ? 1 : 0;
        free(mbuf);
        gb_free(&src);
    }
    set_perturb(0x5E);
    uint64_t h = 1469598103934665603ULL;
    for (size_t i = 0; !f && i < o.written && i < room; i++) {
        h = (h ^ dst[i]) * 1099511628211ULL;
    }
    ev_begin("Call");
    char id[96];
    snprintf(id, sizeof(id), "%s/%ld/%zu/%s/%ld%s", c->codec, c->param, c->n, c->shape, c->sparam,
             c->nullmeta ? "/nm" : "");
    ev_str("id", id);
    ev_str("proc", proc);
    ev_str("sched", sched);
    ev_int("fault", f ? f : df);
    ev_int("written", f ? -1 : (long long)o.written);
    ev_limbs("digest", h);
    ev_int("decoded", (long long)dn);
    ev_limbs("ydigest", hy);
    ev_bytes("head", dst, f ? 0 : (o.written < 40 ? o.written : 40));
    ev_end();
    free(xs);
    free(x32);
    free(dst);
    g_null_meta = 0;
}

int main(int argc, char **argv) {
    if (argc < 6) {
        fprintf(stderr, "usage: %s schedules shard nshards proc out\n", argv[0]);
        return 2;
    }
    FILE *f = fopen(argv[1], "r");
    if (!f) {
        perror(argv[1]);
        return 2;
    }
    size_t shard = strtoul(argv[2], NULL, 10), nshards = strtoul(argv[3], NULL, 10);
    tr_open(argv[5]);
    guard_install();
    shim_fence = 0;
    shim_bypass = 1; /* the library must see the real heap, residue included */
    g_prime_meta = 0; /* histories are built by the schedules, not inside encode_into */
    set_perturb(0x5E);
    char line[512];
    size_t idx = 0;
    while (fgets(line, sizeof(line), f)) {
        if (line[0] != 'S') {
            continue;
        }
        line[strcspn(line, "\n")] = 0;
        /* every call class of this shard under this schedule: classes (not
         * schedules) are sharded so one trace holds all contexts of a class */
        for (size_t ci = 0; ci < NCALLS; ci++) {
            if (ci % nshards != shard) {
                continue;
            }
            run_call(ci, line + 1, argv[4]);
        }
        idx++;
    }
    fclose(f);
    tr_close();
    return 0;
}
