#define BS_BITS 16
#include "bs_inst.inc"
