/* Array-codec driver (C02, C03, C06, C13, C16).
 *
 *   drv_codecs <scenarios> <shard> <nshards> <what> <out.ndjson>
 *
 * scenario line:  <codec> <codec-param> <n> <shape> <shape-param>
 * what: bitmask  1 = readers with full capacity (C02/C06)
 *                2 = tight-destination encode (C03)
 *                4 = reduced capacities (C13)
 *                8 = metadata accessors (C16)
 *
 * Records observations only (arguments, results, memory faults);
 * spec/StoreTrace.tla judges. */
#define _GNU_SOURCE
#include "varint.h"
#include "varintAdaptive.h"
#include "varintBP128.h"
#include "varintBitmap.h"
#include "varintDelta.h"
#include "varintDict.h"
#include "varintElias.h"
#include "varintFOR.h"
#include "varintGroup.h"
#include "varintPFOR.h"
#include "varintRLE.h"
#include "varintTagged.h"

#define VERIF_SHIM 1
#include "guard.h"
#include "trace.h"

enum {
    C_DELTA_S,
    C_DELTA_U,
    C_FOR,
    C_FOR_BATCH,
    C_PFOR,
    C_GROUP,
    C_DICT,
    C_DICT_WITH,
    C_RLE,
    C_RLE_HDR,
    C_GAMMA,
    C_EDELTA,
    C_BP32,
    C_BP64,
    C_BPD32,
    C_BPD64,
    C_ADAPTIVE,
    C_NCODEC
};
static const char *CODEC[C_NCODEC] = {
    "delta_s", "delta_u", "for",    "for_batch", "pfor",  "group",
    "dict",    "dict_with", "rle",  "rle_hdr",   "gamma", "edelta",
    "bp32",    "bp64",    "bpd32",  "bpd64",     "adaptive"};

static unsigned what;
static uint64_t scen_id;

/* ------------------------------------------------------------ value shapes */
static int cmp_u64(const void *a, const void *b) {
    uint64_t x = *(const uint64_t *)a, y = *(const uint64_t *)b;
    return (x > y) - (x < y);
}

/* further shape parameters (scenario fields 6..8); zero when absent */
static long g_sp[3];
#include "recipes.h"

static void gen_shape(const char *shape, size_t n, long param, uint64_t *xs) {
    /* deterministic recipes whose statistics Selector.tla computes exactly */
    if (recipe_shape(shape, n, param, g_sp[0], g_sp[1], g_sp[2], xs)) {
        return;
    }
    if (0) {
    } else if (!strcmp(shape, "halfstep")) {
        /* neighbours exactly 2^63 (param 0), 2^63 - 1 (1), 2^63 + 1 (2), 2^62 (3) apart: the extreme
         * differences of the delta codecs (the zig-zag image of INT64_MIN is the all-ones word) */
        static const uint64_t D[4] = {1ULL << 63, (1ULL << 63) - 1, (1ULL << 63) + 1, 1ULL << 62};
        uint64_t d = D[param & 3];
        uint64_t base = (param & 4) ? 5 : 0;
        for (size_t i = 0; i < n; i++) {
            xs[i] = base + (uint64_t)i;        /* ascending by one ... */
        }
        for (size_t i = n / 2; i < n; i++) {
            xs[i] += d;                         /* ... with one big step in the middle */
        }
        if (param & 8) {                        /* descending variant */
            for (size_t i = 0; i < n / 2; i++) {
                uint64_t t = xs[i];
                xs[i] = xs[n - 1 - i];
                xs[n - 1 - i] = t;
            }
        }
    } else if (!strcmp(shape, "zblk") || !strcmp(shape, "flatblk")) {
        /* 128-blocks selected by the bits of param (block b -> bit b%8) are all
         * zero (zblk) or repeat the previous value (flatblk): zero-width blocks */
        int flat = !strcmp(shape, "flatblk");
        uint64_t prev = 0;
        for (size_t i = 0; i < n; i++) {
            if (((unsigned long)param >> ((i / 128) % 8)) & 1) {
                xs[i] = flat ? prev : 0;
            } else {
                xs[i] = flat ? prev + 1 + rng_u64() % 1000 : 1 + rng_u64() % 100000;
            }
            prev = xs[i];
        }
    } else if (!strcmp(shape, "const")) {
        uint64_t c = rng_anywidth();
        for (size_t i = 0; i < n; i++) {
            xs[i] = c;
        }
    } else if (!strcmp(shape, "asc1")) {
        uint64_t b = rng_anywidth() >> 1;
        for (size_t i = 0; i < n; i++) {
            xs[i] = b + i;
        }
    } else if (!strcmp(shape, "ascw")) { /* steps straddling width boundaries */
        static const uint64_t steps[] = {1, 255, 256, 65535, 65536, 0xFFFFFF,
                                         0x1000000, 0xFFFFFFFFULL, 1, 0, 240, 241};
        uint64_t v = rng_u64() % 300;
        for (size_t i = 0; i < n; i++) {
            xs[i] = v;
            uint64_t s = steps[(i + (size_t)param) % 12];
            if (v + s < (1ULL << 62)) {
                v += s;
            }
        }
    } else if (!strcmp(shape, "desc")) {
        uint64_t b = (rng_anywidth() >> 1) + n;
        for (size_t i = 0; i < n; i++) {
            xs[i] = b - i;
        }
    } else if (!strcmp(shape, "desc16")) { /* descending unique values < 65536 */
        uint64_t b = n + rng_u64() % (65536 - (n > 65000 ? 65000 : n) - 1);
        if (b > 65535) {
            b = 65535;
        }
        for (size_t i = 0; i < n; i++) {
            xs[i] = b >= i ? b - i : 0;
        }
    } else if (!strcmp(shape, "asc16dup")) { /* ascending < 65536, one duplicate */
        uint64_t b = rng_u64() % 1000;
        for (size_t i = 0; i < n; i++) {
            xs[i] = (b + i) & 0xFFFF;
        }
        if (n > 2) {
            xs[n / 2] = xs[n / 2 - 1];
        }
        qsort(xs, n, sizeof(*xs), cmp_u64);
    } else if (!strcmp(shape, "asc16")) { /* strictly ascending < 65536 */
        uint64_t v = rng_u64() % 50;
        for (size_t i = 0; i < n; i++) {
            xs[i] = v & 0xFFFF;
            v += 1 + rng_u64() % 3;
        }
        qsort(xs, n, sizeof(*xs), cmp_u64);
    } else if (!strcmp(shape, "altbits")) { /* alternating 0 / 2^bits-1 */
        unsigned bits = (unsigned)param;
        uint64_t hi = bits >= 64 ? UINT64_MAX : (1ULL << bits) - 1;
        for (size_t i = 0; i < n; i++) {
            xs[i] = (i & 1) ? hi : 0;
        }
    } else if (!strcmp(shape, "marker")) { /* in-range offset == all-ones marker */
        unsigned w = 1 + (unsigned)(param % 3);
        uint64_t m = rng_u64() % 1000;
        uint64_t top = (w >= 8 ? UINT64_MAX : (1ULL << (8 * w)) - 1);
        for (size_t i = 0; i < n; i++) {
            xs[i] = m + rng_u64() % (top + 1);
        }
        /* most values sit at min+top so that the percentile lands there; the
         * minimum itself sits first (param / 3 == 0), last (1) or in the
         * middle (2), so that the marker-valued offset occurs at every
         * position including index 0 and n-1 */
        for (size_t i = 0; i < n; i++) {
            if (rng_u64() % 4) {
                xs[i] = m + top;
            }
        }
        if (n > 1) {
            size_t minpos = (param / 3) % 3 == 0 ? 0 : (param / 3) % 3 == 1 ? n - 1 : n / 2;
            xs[0] = m + top;
            xs[n - 1] = m + top;
            xs[minpos] = m;
        } else {
            xs[0] = m;
        }
    } else if (!strcmp(shape, "outfirst") || !strcmp(shape, "outlast")) {
        uint64_t b = rng_u64() % 100000;
        for (size_t i = 0; i < n; i++) {
            xs[i] = b + rng_u64() % 200;
        }
        uint64_t big = UINT64_MAX - rng_u64() % 1000;
        if (!strcmp(shape, "outfirst")) {
            xs[0] = big;
        } else {
            /* several outliers at the END: exception indices >> ordinals */
            size_t k = n / 25 + 1;
            for (size_t i = 0; i < k && i < n; i++) {
                xs[n - 1 - i] = big - i;
            }
        }
    } else if (!strcmp(shape, "runs")) { /* runs of length param (240/241/...) */
        size_t rl = (size_t)(param > 0 ? param : 1);
        uint64_t v = rng_anywidth();
        for (size_t i = 0; i < n; i++) {
            if (i % rl == 0) {
                v = (rng_u64() & 1) ? rng_anywidth() : rng_u64() % 300;
            }
            xs[i] = v;
        }
    } else if (!strcmp(shape, "rand8")) {
        for (size_t i = 0; i < n; i++) {
            xs[i] = rng_u64() & 0xFF;
        }
    } else if (!strcmp(shape, "rand32")) {
        for (size_t i = 0; i < n; i++) {
            xs[i] = rng_u64() & 0xFFFFFFFFULL;
        }
    } else if (!strcmp(shape, "rand64")) {
        for (size_t i = 0; i < n; i++) {
            xs[i] = rng_u64();
        }
    } else if (!strcmp(shape, "randw")) {
        for (size_t i = 0; i < n; i++) {
            xs[i] = rng_anywidth();
        }
    } else if (!strcmp(shape, "nine")) { /* all need 9 tagged bytes, unique */
        for (size_t i = 0; i < n; i++) {
            xs[i] = (1ULL << 63) | (rng_u64() >> 1) | (uint64_t)i;
        }
    } else if (!strcmp(shape, "max64")) { /* every block 64 bits wide */
        for (size_t i = 0; i < n; i++) {
            xs[i] = UINT64_MAX - (i % 3);
        }
    } else if (!strcmp(shape, "fewuniq")) { /* param distinct values */
        size_t k = (size_t)(param > 0 ? param : 2);
        uint64_t base = rng_anywidth() >> 1;
        for (size_t i = 0; i < n; i++) {
            xs[i] = base + (rng_u64() % k) * 977;
        }
        for (size_t i = 0; i < k && i < n; i++) {
            xs[i] = base + i * 977; /* make sure all k occur when n >= k */
        }
    } else if (!strcmp(shape, "pow2")) {
        for (size_t i = 0; i < n; i++) {
            unsigned k = (unsigned)((i / 3 + (size_t)param) % 64);
            uint64_t p = 1ULL << k;
            xs[i] = (i % 3 == 0) ? p - 1 : (i % 3 == 1) ? p : p + 1;
        }
    } else if (!strcmp(shape, "periodic")) { /* misleads a every-step sampler */
        size_t step = (size_t)(param > 0 ? param : 10);
        for (size_t i = 0; i < n; i++) {
            xs[i] = (i % step == 0) ? 7 : ((1ULL << 63) | rng_u64());
        }
    } else if (!strcmp(shape, "cluster")) { /* param = outliers per 1000 */
        uint64_t b = 1000000 + rng_u64() % 1000;
        for (size_t i = 0; i < n; i++) {
            xs[i] = b + rng_u64() % 1000;
            if (rng_u64() % 1000 < (uint64_t)param) {
                xs[i] = b + 1000000000ULL + rng_u64() % 100000;
            }
        }
    } else {
        fprintf(stderr, "unknown shape %s\n", shape);
        exit(2);
    }
}

/* make the generated array a member of the codec's documented domain */
static void adapt(int codec, long param, size_t n, uint64_t *xs) {
    switch (codec) {
    case C_DELTA_S:
        for (size_t i = 0; i < n; i++) {
            xs[i] = (uint64_t)((int64_t)xs[i] >> 2); /* differences fit int64 */
        }
        break;
    case C_GAMMA:
    case C_EDELTA:
        for (size_t i = 0; i < n; i++) {
            if (xs[i] == 0) {
                xs[i] = 1;
            }
        }
        break;
    case C_BP32:
        for (size_t i = 0; i < n; i++) {
            xs[i] &= 0xFFFFFFFFULL;
        }
        break;
    case C_BPD32:
        for (size_t i = 0; i < n; i++) {
            xs[i] &= 0xFFFFFFFFULL;
        }
        qsort(xs, n, sizeof(*xs), cmp_u64);
        break;
    case C_BPD64:
        qsort(xs, n, sizeof(*xs), cmp_u64);
        break;
    case C_ADAPTIVE:
        if (param == VARINT_ADAPTIVE_BITMAP) { /* documented domain of forced bitmap */
            for (size_t i = 0; i < n; i++) {
                xs[i] &= 0xFFFF;
            }
            qsort(xs, n, sizeof(*xs), cmp_u64);
            size_t k = 0;
            for (size_t i = 0; i < n; i++) {
                if (k == 0 || xs[i] != xs[k - 1]) {
                    xs[k++] = xs[i];
                }
            }
            /* refill to n strictly increasing values if possible */
            uint64_t v = k ? xs[k - 1] : 0;
            while (k < n && v < 65535) {
                xs[k++] = ++v;
            }
            /* caller re-reads n from adapted_n */
            extern size_t adapted_n;
            adapted_n = k;
        }
        break;
    default:
        break;
    }
}
size_t adapted_n;

/* ------------------------------------------------------------------ encode */
typedef struct enc_out {
    size_t bound;    /* advertised size for this input */
    int exact;       /* sizing function documented as exact */
    size_t written;  /* return value of the encoder */
    size_t bits;     /* elias: total bits */
    int have_meta;
    /* metadata fields reported by the encoder, -1 = not reported */
    long long m_count, m_size, m_runs, m_blocks, m_last, m_width, m_exc, m_type,
        m_bits, m_maxbw;
    uint64_t m_min, m_max, m_range;
    int m_has_min;
} enc_out;

static varintFORMeta g_formeta;
static varintPFORMeta g_pformeta;
static varintAdaptiveMeta g_adaptmeta; /* as the last adaptive encode left it */
static varintDict *g_dict;

static size_t bound_of(int codec, long param, const uint64_t *xs,
                       const uint32_t *x32, size_t n, int *exact) {
    *exact = 0;
    switch (codec) {
    case C_DELTA_S:
    case C_DELTA_U:
        return varintDeltaMaxEncodedSize(n);
    case C_FOR:
    case C_FOR_BATCH: {
        varintFORMeta m;
        memset(&m, 0, sizeof(m));
        varintFORAnalyze(xs, n, &m);
        *exact = 1;
        return varintFORSize(&m);
    }
    case C_PFOR: {
        varintPFORMeta m;
        memset(&m, 0, sizeof(m));
        varintPFORComputeThreshold(xs, (uint32_t)n, (uint32_t)param, &m);
        return varintPFORSize(&m);
    }
    case C_GROUP:
        *exact = 1;
        return varintGroupSize(xs, (uint8_t)n);
    case C_DICT:
        *exact = 1;
        return varintDictEncodedSize(xs, n);
    case C_DICT_WITH:
        *exact = 1;
        return varintDictEncodedSizeWithDict(g_dict, n);
    case C_RLE:
        *exact = 2; /* two sizing functions: MaxSize (bound) and Size (exact) */
        return varintRLEMaxSize(n);
    case C_RLE_HDR:
        /* the header format has no sizing function of its own: the run body
         * is bounded by varintRLEMaxSize, the count header by 9 bytes */
        return varintRLEMaxSize(n) + 9;
    case C_GAMMA:
        return varintEliasGammaMaxBytes(n);
    case C_EDELTA:
        return varintEliasDeltaMaxBytes(n);
    case C_BP32:
    case C_BP64:
    case C_BPD32:
    case C_BPD64:
        return varintBP128MaxBytes(n);
    case C_ADAPTIVE:
        return varintAdaptiveMaxSize(n);
    }
    (void)x32;
    return 0;
}

static void meta_clear(enc_out *o) {
    o->have_meta = 0;
    o->m_count = o->m_size = o->m_runs = o->m_blocks = o->m_last = o->m_width =
        o->m_exc = o->m_type = o->m_bits = o->m_maxbw = -1;
    o->m_has_min = 0;
    o->m_min = o->m_max = o->m_range = 0;
}

/* run the encoder of `codec` into dst; fills o->written and metadata */
/* Output-only metadata structs are handed to the encoder the way a caller
 * that reuses one struct across calls hands them over: still holding the
 * result of a previous encode of ANOTHER array of the same length (a decoy
 * inside the codec's domain).  Nothing of it may survive into this call. */
static uint64_t *g_decoy;
static uint32_t *g_decoy32;
static uint8_t *g_decoy_dst;
static int g_prime_meta = 1;
static int g_null_meta; /* 1: call the encoders with meta == NULL (their other code path) */ /* the purity driver builds its histories itself and switches this off */
static void decoy_prepare(int codec, long param, const uint64_t *xs, size_t n) {
    g_decoy = realloc(g_decoy, (n + 1) * 8);
    g_decoy32 = realloc(g_decoy32, (n + 1) * 4);
    g_decoy_dst = realloc(g_decoy_dst, n * 20 + 4096);
    for (size_t i = 0; i < n; i++) {
        g_decoy[i] = (codec == C_ADAPTIVE && param == 4) ? (uint64_t)i * 2 + 1 : (xs[i] >> 1) + 3;
        if (codec == C_BP32 || codec == C_BPD32) {
            g_decoy[i] &= 0xFFFFFFFFULL;
        }
        g_decoy32[i] = (uint32_t)g_decoy[i];
    }
}

static void encode_into(int codec, long param, uint8_t *dst, const uint64_t *xs,
                        const uint32_t *x32, size_t n, enc_out *o) {
    meta_clear(o);
    o->bits = 0;
    switch (codec) {
    case C_RLE:
    case C_RLE_HDR:
    case C_GAMMA:
    case C_EDELTA:
    case C_BP32:
    case C_BP64:
    case C_BPD32:
    case C_BPD64:
    case C_ADAPTIVE:
        decoy_prepare(codec, param, xs, n);
        break;
    default:
        break;
    }
    switch (codec) {
    case C_DELTA_S:
        o->written = varintDeltaEncode(dst, (const int64_t *)xs, n);
        break;
    case C_DELTA_U:
        o->written = varintDeltaEncodeUnsigned(dst, xs, n);
        break;
    case C_FOR:
    case C_FOR_BATCH: {
        varintFORMeta m;
        memset(&m, 0, sizeof(m));
        if (g_null_meta) {
            o->written = codec == C_FOR ? varintFOREncode(dst, xs, n, NULL)
                                        : varintFORBatchEncode(dst, xs, n, NULL);
            break;
        }
        o->written = codec == C_FOR ? varintFOREncode(dst, xs, n, &m)
                                    : varintFORBatchEncode(dst, xs, n, &m);
        g_formeta = m;
        o->have_meta = 1;
        o->m_count = (long long)m.count;
        o->m_size = (long long)m.encodedSize;
        o->m_width = m.offsetWidth;
        o->m_min = m.minValue;
        o->m_max = m.maxValue;
        o->m_range = m.range;
        o->m_has_min = 1;
        break;
    }
    case C_PFOR: {
        varintPFORMeta m;
        memset(&m, 0, sizeof(m));
        o->written = varintPFOREncode(dst, xs, (uint32_t)n, (uint32_t)param, &m);
        g_pformeta = m;
        o->have_meta = 1;
        o->m_count = m.count;
        o->m_width = m.width;
        o->m_exc = m.exceptionCount;
        o->m_min = m.min;
        o->m_has_min = 2; /* min only */
        break;
    }
    case C_GROUP:
        o->written = varintGroupEncode(dst, xs, (uint8_t)n);
        break;
    case C_DICT:
        o->written = varintDictEncode(dst, xs, n);
        break;
    case C_DICT_WITH:
        o->written = varintDictEncodeWithDict(dst, g_dict, xs, n);
        break;
    case C_RLE:
    case C_RLE_HDR: {
        varintRLEMeta m;
        memset(&m, 0x5A, sizeof(m));
        if (g_prime_meta) (void)(codec == C_RLE ? varintRLEEncode(g_decoy_dst, g_decoy, n, &m)
                              : varintRLEEncodeWithHeader(g_decoy_dst, g_decoy, n, &m));
        if (g_null_meta) {
            o->written = codec == C_RLE ? varintRLEEncode(dst, xs, n, NULL)
                                        : varintRLEEncodeWithHeader(dst, xs, n, NULL);
            break;
        }
        o->written = codec == C_RLE ? varintRLEEncode(dst, xs, n, &m)
                                    : varintRLEEncodeWithHeader(dst, xs, n, &m);
        o->have_meta = 1;
        o->m_count = (long long)m.count;
        o->m_runs = (long long)m.runCount;
        o->m_size = (long long)m.encodedSize;
        break;
    }
    case C_GAMMA:
    case C_EDELTA: {
        varintEliasMeta m;
        memset(&m, 0x5A, sizeof(m));
        if (g_prime_meta) (void)(codec == C_GAMMA ? varintEliasGammaEncodeArray(g_decoy_dst, g_decoy, n, &m)
                                : varintEliasDeltaEncodeArray(g_decoy_dst, g_decoy, n, &m));
        if (g_null_meta) {
            /* the bit total is needed by the readers: take it from the sizing API */
            o->written = codec == C_GAMMA ? varintEliasGammaEncodeArray(dst, xs, n, NULL)
                                          : varintEliasDeltaEncodeArray(dst, xs, n, NULL);
            o->bits = 0;
            for (size_t i = 0; i < n; i++) {
                o->bits += codec == C_GAMMA ? varintEliasGammaBits(xs[i]) : varintEliasDeltaBits(xs[i]);
            }
            break;
        }
        o->written = codec == C_GAMMA
                         ? varintEliasGammaEncodeArray(dst, xs, n, &m)
                         : varintEliasDeltaEncodeArray(dst, xs, n, &m);
        o->have_meta = 1;
        o->m_count = (long long)m.count;
        o->m_bits = (long long)m.totalBits;
        o->m_size = (long long)m.encodedBytes;
        o->bits = m.totalBits;
        break;
    }
    case C_BP32:
    case C_BP64:
    case C_BPD32:
    case C_BPD64: {
        varintBP128Meta m;
        memset(&m, 0x5A, sizeof(m));
        if (g_prime_meta) (void)(codec == C_BP32    ? varintBP128Encode32(g_decoy_dst, g_decoy32, n, &m)
               : codec == C_BP64  ? varintBP128Encode64(g_decoy_dst, g_decoy, n, &m)
               : codec == C_BPD32 ? varintBP128DeltaEncode32(g_decoy_dst, g_decoy32, n, &m)
                                  : varintBP128DeltaEncode64(g_decoy_dst, g_decoy, n, &m));
        if (g_null_meta) {
            o->written = codec == C_BP32    ? varintBP128Encode32(dst, x32, n, NULL)
                         : codec == C_BP64  ? varintBP128Encode64(dst, xs, n, NULL)
                         : codec == C_BPD32 ? varintBP128DeltaEncode32(dst, x32, n, NULL)
                                            : varintBP128DeltaEncode64(dst, xs, n, NULL);
            break;
        }
        o->written =
            codec == C_BP32    ? varintBP128Encode32(dst, x32, n, &m)
            : codec == C_BP64  ? varintBP128Encode64(dst, xs, n, &m)
            : codec == C_BPD32 ? varintBP128DeltaEncode32(dst, x32, n, &m)
                               : varintBP128DeltaEncode64(dst, xs, n, &m);
        o->have_meta = 1;
        o->m_count = (long long)m.count;
        o->m_blocks = (long long)m.blockCount;
        o->m_size = (long long)m.encodedBytes;
        o->m_last = (long long)m.lastBlockSize;
        o->m_maxbw = m.maxBitWidth;
        break;
    }
    case C_ADAPTIVE: {
        varintAdaptiveMeta m;
        memset(&m, 0, sizeof(m));
        if (g_prime_meta) (void)(param < 0 ? varintAdaptiveEncode(g_decoy_dst, g_decoy, n, &m)
                         : varintAdaptiveEncodeWith(g_decoy_dst, g_decoy, n, (varintAdaptiveEncodingType)param, &m));
        if (g_null_meta) {
            o->written = param < 0 ? varintAdaptiveEncode(dst, xs, n, NULL)
                                   : varintAdaptiveEncodeWith(dst, xs, n, (varintAdaptiveEncodingType)param, NULL);
            break;
        }
        o->written = param < 0 ? varintAdaptiveEncode(dst, xs, n, &m)
                               : varintAdaptiveEncodeWith(
                                     dst, xs, n,
                                     (varintAdaptiveEncodingType)param, &m);
        o->have_meta = 1;
        o->m_count = (long long)m.originalCount;
        o->m_size = (long long)m.encodedSize;
        o->m_type = m.encodingType;
        g_adaptmeta = m;
        break;
    }
    }
}

/* a field the encoder left at the 0x5A prefill (or any absurd value) is
 * reported as -2 = "garbage": TLC integers are 32-bit */
static long long clipf(long long v) {
    return (v > (1LL << 30) || v < -1) ? -2 : v;
}
static void ev_enc_meta(const enc_out *o) {
    fprintf(tr_f, ",\"meta\":{\"have\":%d,\"count\":%lld,\"size\":%lld,"
                  "\"runs\":%lld,\"blocks\":%lld,\"last\":%lld,\"width\":%lld,"
                  "\"exc\":%lld,\"type\":%lld,\"bits\":%lld,\"maxbw\":%lld,"
                  "\"hasmin\":%d",
            o->have_meta, clipf(o->m_count), clipf(o->m_size), clipf(o->m_runs),
            clipf(o->m_blocks), clipf(o->m_last), clipf(o->m_width),
            clipf(o->m_exc), clipf(o->m_type), clipf(o->m_bits),
            clipf(o->m_maxbw), o->m_has_min);
    fputs(",\"min\":", tr_f);
    put_limbs(o->m_min);
    fputs(",\"max\":", tr_f);
    put_limbs(o->m_max);
    fputs(",\"range\":", tr_f);
    put_limbs(o->m_range);
    fputc('}', tr_f);
}

/* ------------------------------------------------------------------ decode */
static void ev_dec_head(const char *codec, long param, const char *api,
                        size_t cap) {
    ev_begin("Dec");
    ev_int("sc", (long long)scen_id);
    ev_str("codec", codec);
    ev_int("param", param);
    ev_str("api", api);
    ev_int("cap", (long long)cap);
}

/* one capacity-taking (or count-taking) full decode with exact-size buffers */
static void run_decode(int codec, long param, const char *api, const gbuf *src,
                       size_t written, size_t bits, size_t n, size_t cap) {
    int is32 = codec == C_BP32 || codec == C_BPD32;
    size_t esz = is32 ? 4 : 8;
    gbuf out = gb_alloc(cap * esz);
    memset(out.p, 0xA7, cap * esz);
    size_t ret = 0;
    long long aux = -1; /* secondary result (bytes consumed, field count) */
    int f = 0;
    uint64_t *o64 = (uint64_t *)out.p;
    uint32_t *o32 = (uint32_t *)out.p;
    const uint8_t *s = src->p;
    int alloc_out = 0;
    uint64_t *heap_out = NULL;

    switch (codec) {
    case C_DELTA_S:
        f = GUARDED(aux = (long long)varintDeltaDecode(s, cap, (int64_t *)o64));
        ret = cap;
        break;
    case C_DELTA_U:
        f = GUARDED(aux = (long long)varintDeltaDecodeUnsigned(s, cap, o64));
        ret = cap;
        break;
    case C_FOR:
    case C_FOR_BATCH:
        if (!strcmp(api, "BatchDecode")) {
            f = GUARDED(ret = varintFORBatchDecode(s, o64, cap));
        } else {
            f = GUARDED(ret = varintFORDecode(s, o64, cap));
        }
        break;
    case C_PFOR: {
        varintPFORMeta m;
        if (!strcmp(api, "DecodeMeta")) {
            m = g_pformeta;
        } else {
            memset(&m, 0, sizeof(m));
        }
        f = GUARDED(ret = varintPFORDecode(s, o64, &m));
        break;
    }
    case C_GROUP: {
        uint8_t fc = 0;
        f = GUARDED(aux = (long long)varintGroupDecode(s, o64, &fc, cap));
        ret = aux > 0 ? fc : 0;
        break;
    }
    case C_DICT:
    case C_DICT_WITH:
        if (!strcmp(api, "Decode")) {
            size_t cnt = 0;
            f = GUARDED(heap_out = varintDictDecode(s, written, &cnt));
            ret = heap_out ? cnt : 0;
            alloc_out = 1;
        } else {
            f = GUARDED(ret = varintDictDecodeInto(s, written, o64, cap));
        }
        break;
    case C_RLE:
        f = GUARDED(ret = varintRLEDecode(s, o64, cap));
        break;
    case C_RLE_HDR:
        f = GUARDED(ret = varintRLEDecodeWithHeader(s, o64, cap));
        break;
    case C_GAMMA:
        f = GUARDED(ret = varintEliasGammaDecodeArray(s, bits, o64, cap));
        break;
    case C_EDELTA:
        f = GUARDED(ret = varintEliasDeltaDecodeArray(s, bits, o64, cap));
        break;
    case C_BP32:
        f = GUARDED(ret = varintBP128Decode32(s, o32, cap));
        break;
    case C_BP64:
        f = GUARDED(ret = varintBP128Decode64(s, o64, cap));
        break;
    case C_BPD32:
        f = GUARDED(ret = varintBP128DeltaDecode32(s, o32, cap));
        break;
    case C_BPD64:
        f = GUARDED(ret = varintBP128DeltaDecode64(s, o64, cap));
        break;
    case C_ADAPTIVE: {
        varintAdaptiveMeta m;
        memset(&m, 0, sizeof(m));
        if (!strcmp(api, "DecodeMeta")) {
            m = g_adaptmeta; /* the struct the encoder filled, handed back: an output argument all the same */
        }
        f = GUARDED(ret = varintAdaptiveDecode(s, o64, cap, &m));
        aux = f ? -1 : (long long)m.encodingType;
        break;
    }
    }
    (void)n;
    ev_dec_head(CODEC[codec], param, api, cap);
    ev_int("fault", f);
    ev_int("foff_src", f == 1 ? gb_fault_off(src) : 0);
    ev_int("foff_out", f == 1 ? gb_fault_off(&out) : 0);
    ev_int("ret", f ? -1 : (long long)ret);
    ev_int("aux", aux);
    size_t show = f ? 0 : ret;
    if (alloc_out) {
        if (heap_out && !f) {
            ev_arr("ys", heap_out, show);
        } else {
            ev_arr("ys", o64, 0);
        }
        free(heap_out);
    } else {
        if (show > cap) {
            show = cap; /* never read our own guard page */
        }
        if (is32) {
            ev_arr32("ys", o32, show);
        } else {
            ev_arr("ys", o64, show);
        }
    }
    ev_end();
    gb_free(&out);
}

static const char *full_readers(int codec, int k) {
    switch (codec) {
    case C_FOR:
    case C_FOR_BATCH:
        return k == 0 ? "Decode" : k == 1 ? "BatchDecode" : NULL;
    case C_PFOR:
        return k == 0 ? "Decode" : k == 1 ? "DecodeMeta" : NULL;
    case C_DICT:
    case C_DICT_WITH:
        return k == 0 ? "DecodeInto" : k == 1 ? "Decode" : NULL;
    case C_ADAPTIVE:
        return k == 0 ? "Decode" : k == 1 ? "DecodeMeta" : NULL;
    default:
        return k == 0 ? "Decode" : NULL;
    }
}

/* random access / block readers / accessors: one "At" event per reader */
static void run_random_access(int codec, const gbuf *src, size_t written,
                              size_t n) {
    const uint8_t *s = src->p;
    size_t idx[24];
    size_t k = 0;
    size_t cand[] = {0, 1, n / 2, n - 1, n > 1 ? n - 2 : 0, 126, 127, 128, 129,
                     239, 240, 241, 255, 256, 2287, 2288, 4095, 4096};
    for (size_t i = 0; i < sizeof(cand) / sizeof(cand[0]); i++) {
        if (cand[i] < n) {
            idx[k++] = cand[i];
        }
    }
    for (int i = 0; i < 4; i++) {
        idx[k++] = (size_t)(rng_u64() % n);
    }
    uint64_t ys[24];
    const char *api = NULL;
    int f = 0;
    size_t done = 0;
    if (codec == C_FOR || codec == C_FOR_BATCH) {
        api = "GetAt";
        for (done = 0; done < k && !f; done++) {
            f = GUARDED(ys[done] = varintFORGetAt(s, idx[done]));
        }
    } else if (codec == C_PFOR) {
        api = "GetAt";
        for (done = 0; done < k && !f; done++) {
            f = GUARDED(ys[done] = varintPFORGetAt(s, (uint32_t)idx[done],
                                                   &g_pformeta));
        }
    } else if (codec == C_RLE) {
        api = "GetAt";
        for (done = 0; done < k && !f; done++) {
            f = GUARDED(ys[done] = varintRLEGetAt(s, idx[done]));
        }
    } else if (codec == C_GROUP) {
        api = "GetField";
        for (done = 0; done < k && !f; done++) {
            size_t r = 0;
            ys[done] = 0;
            f = GUARDED(r = varintGroupGetField(s, (uint8_t)idx[done], &ys[done]));
            if (!f && r == 0) {
                ys[done] = 0xDEADDEADDEADULL;
            }
        }
    }
    if (api) {
        ev_begin("At");
        ev_int("sc", (long long)scen_id);
        ev_str("codec", CODEC[codec]);
        ev_str("api", api);
        ev_int("fault", f);
        fprintf(tr_f, ",\"idx\":[");
        size_t m = f ? (done ? done - 1 : 0) : done;
        for (size_t i = 0; i < m; i++) {
            fprintf(tr_f, i ? ",%zu" : "%zu", idx[i]);
        }
        fputc(']', tr_f);
        ev_arr("ys", ys, m);
        ev_end();
    }
    if (codec == C_FOR || codec == C_FOR_BATCH) {
        size_t starts[] = {0, n / 2, n - 1, 127, 128};
        size_t lens[] = {1, 128, n, 129, 16};
        for (int i = 0; i < 5; i++) {
            if (starts[i] >= n) {
                continue;
            }
            size_t bs = lens[i];
            size_t room = bs < n ? bs : n;
            gbuf out = gb_alloc(room * 8);
            size_t r = 0;
            f = GUARDED(r = varintFORDecodeBlock(s, (uint64_t *)out.p, starts[i], bs));
            ev_begin("Blk");
            ev_int("sc", (long long)scen_id);
            ev_str("codec", CODEC[codec]);
            ev_str("api", "DecodeBlock");
            ev_int("fault", f);
            ev_int("start", (long long)starts[i]);
            ev_int("k", (long long)bs);
            ev_int("ret", f ? -1 : (long long)r);
            ev_arr("ys", (uint64_t *)out.p, f ? 0 : (r <= room ? r : room));
            ev_end();
            gb_free(&out);
        }
    }
    (void)written;
}

/* public entry points below the array level: single-block codecs, run
 * iteration, dictionary lookups.  Each is logged as a Blk / At event and must
 * agree with the array the scenario encoded. */
static void blk_emit(int codec, const char *api, int f, size_t start, size_t k,
                     long long ret, const uint64_t *ys, size_t ny) {
    ev_begin("Blk");
    ev_int("sc", (long long)scen_id);
    ev_str("codec", CODEC[codec]);
    ev_str("api", api);
    ev_int("fault", f);
    ev_int("start", (long long)start);
    ev_int("k", (long long)k);
    ev_int("ret", f ? -1 : ret);
    ev_arr("ys", ys, f ? 0 : ny);
    ev_end();
}
static void run_sub_apis(int codec, const gbuf *src, const uint64_t *xs,
                         const uint32_t *x32, size_t n) {
    const uint8_t *s = src->p;
    if ((codec == C_BP32 || codec == C_BPD32) && n >= 128) {
        size_t starts[3] = {0, 128, (n / 128 - 1) * 128};
        for (int i = 0; i < 3; i++) {
            size_t st = starts[i];
            if (st + 128 > n || (i > 0 && st == starts[i - 1])) {
                continue;
            }
            gbuf buf = gb_alloc(128 * 4 + 8);
            gbuf out = gb_alloc(128 * 4);
            uint32_t prev = st ? x32[st - 1] : 0;
            size_t w = 0, r = 0;
            int f = codec == C_BP32 ? GUARDED(w = varintBP128EncodeBlock32(buf.p, x32 + st))
                                    : GUARDED(w = varintBP128DeltaEncodeBlock32(buf.p, x32 + st, prev));
            if (!f) {
                f = codec == C_BP32 ? GUARDED(r = varintBP128DecodeBlock32(buf.p, (uint32_t *)out.p))
                                    : GUARDED(r = varintBP128DeltaDecodeBlock32(buf.p, (uint32_t *)out.p, prev));
            }
            uint64_t ys[128];
            for (int j = 0; j < 128; j++) {
                ys[j] = f ? 0 : ((uint32_t *)out.p)[j];
            }
            blk_emit(codec, "EncodeBlock32/DecodeBlock32", f, st, 128, (!f && r == w && w > 0) ? 128 : 0, ys, 128);
            gb_free(&buf);
            gb_free(&out);
        }
    }
    if (codec == C_RLE) {
        /* iterate the stream run by run */
        uint64_t *ys = malloc((n + 1) * 8);
        size_t got = 0, off = 0;
        int f = 0;
        while (got < n && !f) {
            size_t rl = 0, c = 0;
            uint64_t v = 0;
            f = GUARDED(c = varintRLEDecodeRun(s + off, &rl, &v));
            if (f || c == 0 || rl == 0) {
                break;
            }
            for (size_t j = 0; j < rl && got < n; j++) {
                ys[got++] = v;
            }
            off += c;
        }
        blk_emit(codec, "DecodeRun", f, 0, n, (long long)got, ys, got);
        free(ys);
    }
    if (codec == C_DICT_WITH && g_dict) {
        size_t cand[] = {0, 1, n / 2, n - 1, 255, 256, 257};
        size_t idx[8], k = 0;
        uint64_t ys[8];
        int f = 0;
        for (size_t i = 0; i < 7; i++) {
            if (cand[i] < n) {
                idx[k++] = cand[i];
            }
        }
        size_t done = 0;
        for (done = 0; done < k && !f; done++) {
            int32_t di = -1;
            f = GUARDED(di = varintDictFind(g_dict, xs[idx[done]]));
            ys[done] = 0xDEADDEADDEADULL;
            if (!f && di >= 0) {
                f = GUARDED(ys[done] = varintDictLookup(g_dict, (uint32_t)di));
            }
        }
        ev_begin("At");
        ev_int("sc", (long long)scen_id);
        ev_str("codec", CODEC[codec]);
        ev_str("api", "Find/Lookup");
        ev_int("fault", f);
        fprintf(tr_f, ",\"idx\":[");
        size_t m = f ? (done ? done - 1 : 0) : done;
        for (size_t i = 0; i < m; i++) {
            fprintf(tr_f, i ? ",%zu" : "%zu", idx[i]);
        }
        fputc(']', tr_f);
        ev_arr("ys", ys, m);
        ev_end();
    }
}

/* header accessors: C16 */
static long g_acc_idx = -1; /* element the accessor was asked about, when it takes one */
static void acc_emit(int codec, const char *api, int f, long long ret,
                     int has_val, uint64_t val) {
    ev_begin("Acc");
    ev_int("idx", g_acc_idx);
    ev_int("sc", (long long)scen_id);
    ev_str("codec", CODEC[codec]);
    ev_str("api", api);
    ev_int("fault", f);
    ev_int("ret", f ? -1 : ret);
    ev_int("hasval", has_val);
    ev_limbs("val", val);
    ev_end();
}

static void run_accessors(int codec, const gbuf *src, size_t written, size_t n) {
    const uint8_t *s = src->p;
    int f;
    size_t r = 0;
    uint64_t v = 0;
    (void)n;
    switch (codec) {
    case C_FOR:
    case C_FOR_BATCH: {
        varintFORMeta m;
        memset(&m, 0, sizeof(m));
        f = GUARDED(varintFORReadMetadata(s, &m));
        acc_emit(codec, "ReadMetadata.count", f, (long long)m.count, 0, 0);
        acc_emit(codec, "ReadMetadata.minValue", f, 0, 1, m.minValue);
        acc_emit(codec, "ReadMetadata.offsetWidth", f, m.offsetWidth, 0, 0);
        acc_emit(codec, "ReadMetadata.encodedSize", f, (long long)m.encodedSize, 0, 0);
        f = GUARDED(r = varintFORGetCount(s));
        acc_emit(codec, "GetCount", f, (long long)r, 0, 0);
        f = GUARDED(v = varintFORGetMinValue(s));
        acc_emit(codec, "GetMinValue", f, 0, 1, v);
        f = GUARDED(r = varintFORGetOffsetWidth(s));
        acc_emit(codec, "GetOffsetWidth", f, (long long)r, 0, 0);
        break;
    }
    case C_PFOR: {
        varintPFORMeta m;
        memset(&m, 0, sizeof(m));
        f = GUARDED(r = varintPFORReadMeta(s, &m));
        acc_emit(codec, "ReadMeta.count", f, m.count, 0, 0);
        acc_emit(codec, "ReadMeta.min", f, 0, 1, m.min);
        acc_emit(codec, "ReadMeta.width", f, m.width, 0, 0);
        acc_emit(codec, "ReadMeta.exceptionCount", f, m.exceptionCount, 0, 0);
        acc_emit(codec, "ReadMeta.headerBytes", f, (long long)r, 0, 0);
        break;
    }
    case C_GROUP: {
        f = GUARDED(r = varintGroupGetSize(s));
        acc_emit(codec, "GetSize", f, (long long)r, 0, 0);
        f = GUARDED(r = varintGroupGetFieldCount(s));
        acc_emit(codec, "GetFieldCount", f, (long long)r, 0, 0);
        {
            size_t cand[] = {0, 1, n / 2, n - 1, 3, 4, 15, 16, 17, 31, 32, 47, 48, 63};
            for (size_t i = 0; i < sizeof(cand) / sizeof(cand[0]); i++) {
                if (cand[i] >= n) {
                    continue;
                }
                varintWidth w = 0;
                f = GUARDED(w = varintGroupGetFieldWidth(s, (uint8_t)cand[i]));
                g_acc_idx = (long)cand[i];
                acc_emit(codec, "GetFieldWidth", f, (long long)w, 0, 0);
                g_acc_idx = -1;
            }
        }
        break;
    }
    case C_RLE:
        f = GUARDED(r = varintRLEGetRunCount(s, written));
        acc_emit(codec, "GetRunCount", f, (long long)r, 0, 0);
        break;
    case C_RLE_HDR:
        f = GUARDED(r = varintRLEGetCount(s));
        acc_emit(codec, "GetCount", f, (long long)r, 0, 0);
        break;
    case C_BP32:
    case C_BP64:
    case C_BPD32:
    case C_BPD64:
        f = GUARDED(r = varintBP128GetCount(s, written));
        acc_emit(codec, "GetCount", f, (long long)r, 0, 0);
        break;
    case C_ADAPTIVE: {
        varintAdaptiveMeta m;
        memset(&m, 0, sizeof(m));
        f = GUARDED(r = varintAdaptiveReadMeta(s, &m));
        acc_emit(codec, "ReadMeta.encodingType", f, m.encodingType, 0, 0);
        acc_emit(codec, "ReadMeta.originalCount", f, (long long)m.originalCount, 0, 0);
        acc_emit(codec, "ReadMeta.encodedSize", f, (long long)m.encodedSize, 0, 0);
        f = GUARDED(r = varintAdaptiveGetEncodingType(s));
        acc_emit(codec, "GetEncodingType", f, (long long)r, 0, 0);
        break;
    }
    default:
        break;
    }
}

/* analysis entry points that report properties of the INPUT a caller sizes
 * buffers from (C16): logged as Acc events against the same Enc event */
static void run_analyzers(int codec, const uint64_t *xs, const uint32_t *x32, size_t n) {
    int f;
    switch (codec) {
    case C_FOR:
    case C_FOR_BATCH: {
        varintFORMeta m;
        memset(&m, 0x5A, sizeof(m));
        f = GUARDED(varintFORAnalyze(xs, n, &m));
        acc_emit(codec, "Analyze.count", f, (long long)m.count, 0, 0);
        acc_emit(codec, "Analyze.minValue", f, 0, 1, m.minValue);
        acc_emit(codec, "Analyze.offsetWidth", f, m.offsetWidth, 0, 0);
        memset(&m, 0x5A, sizeof(m));
        f = GUARDED(varintFORBatchAnalyze(xs, n, &m));
        acc_emit(codec, "BatchAnalyze.count", f, (long long)m.count, 0, 0);
        acc_emit(codec, "BatchAnalyze.minValue", f, 0, 1, m.minValue);
        acc_emit(codec, "BatchAnalyze.offsetWidth", f, m.offsetWidth, 0, 0);
        varintWidth w = 0;
        f = GUARDED(w = varintFORComputeWidth(m.range));
        acc_emit(codec, "ComputeWidth", f, (long long)w, 0, 0);
        break;
    }
    case C_RLE: {
        varintRLEMeta m;
        memset(&m, 0x5A, sizeof(m));
        f = GUARDED(varintRLEAnalyze(xs, n, &m));
        acc_emit(codec, "Analyze.count", f, (long long)m.count, 0, 0);
        acc_emit(codec, "Analyze.runCount", f, (long long)m.runCount, 0, 0);
        acc_emit(codec, "Analyze.encodedSize", f, (long long)m.encodedSize, 0, 0);
        break;
    }
    case C_BP32:
    case C_BPD32: {
        uint8_t w = 0;
        f = GUARDED(w = varintBP128MaxBitWidth32(x32, n));
        acc_emit(codec, "MaxBitWidth", f, w, 0, 0);
        break;
    }
    case C_BP64:
    case C_BPD64: {
        uint8_t w = 0;
        f = GUARDED(w = varintBP128MaxBitWidth64(xs, n));
        acc_emit(codec, "MaxBitWidth", f, w, 0, 0);
        break;
    }
    case C_ADAPTIVE: {
        /* the analysis behind the automatic selection: conformance facts (NOTES), compared by
         * StoreTrace.tla with the same statistics computed from the values */
        if (n > 200) {
            break;
        }
        varintAdaptiveDataStats st;
        memset(&st, 0x5A, sizeof(st));
        f = GUARDED(varintAdaptiveAnalyze(xs, n, &st));
        int sorted = 0;
        size_t uniq = 0;
        int f2 = GUARDED(sorted = varintAdaptiveCheckSorted(xs, n));
        f2 = f2 ? f2 : GUARDED(uniq = varintAdaptiveCountUnique(xs, n));
        ev_begin("Stat");
        ev_int("sc", (long long)scen_id);
        ev_str("codec", CODEC[codec]);
        ev_int("fault", f ? f : f2);
        ev_int("count", f ? -1 : (long long)st.count);
        ev_limbs("min", st.minValue);
        ev_limbs("max", st.maxValue);
        ev_limbs("range", st.range);
        ev_limbs("maxdelta", st.maxDelta);
        ev_int("unique", f ? -1 : (long long)st.uniqueCount);
        ev_int("sorted", f ? -1 : st.isSorted);
        ev_int("rsorted", f ? -1 : st.isReverseSorted);
        ev_int("fits", f ? -1 : st.fitsInBitmapRange);
        ev_int("chk", sorted);
        ev_int("cu", (long long)uniq);
        ev_end();
        break;
    }
    default:
        break;
    }
}

static long long clipf(long long v);
/* one encode of xs and everything the tier asks for about its output */
static void scenario_body(int codec, long param, size_t n, const char *shape, long sparam, uint64_t *xs,
                          uint32_t *x32) {
    g_guard_secs = n > 100000 ? 90 : GUARD_SECS; /* CPU seconds one call may burn before it counts as a hang */
    int exact = 0;
    size_t bound = 0;
    int bf = GUARDED(bound = bound_of(codec, param, xs, x32, n, &exact));
    size_t exact_size = 0;
    if (codec == C_RLE) {
        exact_size = varintRLESize(xs, n);
    }

    /* roomy destination: lets the round trip continue even when the
     * advertised size is wrong; still guarded */
    size_t room = bound + 64 + n * 20;
    gbuf dst = gb_alloc(room);
    memset(dst.p, 0x5C, room);
    enc_out o;
    memset(&o, 0, sizeof(o));
    meta_clear(&o);
    int ef = bf ? bf : GUARDED(encode_into(codec, param, dst.p, xs, x32, n, &o));

    ev_begin("Enc");
    ev_int("sc", (long long)scen_id);
    ev_str("codec", CODEC[codec]);
    ev_str("shape", shape);
    ev_int("sparam", sparam);
    ev_int("p2", g_sp[0]);
    ev_int("p3", g_sp[1]);
    ev_int("p4", g_sp[2]);
    ev_int("param", param);
    ev_int("n", (long long)n);
    ev_int("fault", ef);
    ev_int("bound", (long long)bound);
    ev_int("exact", exact);
    ev_int("exactsize", (long long)exact_size);
    ev_int("written", ef ? -1 : (long long)o.written);
    ev_int("bits", (long long)o.bits);
    ev_enc_meta(&o);
    ev_bytes("hdr", dst.p, ef ? 0 : (o.written < 48 ? o.written : 48));
    if (codec == C_BP32 || codec == C_BPD32) {
        ev_arr32("xs", x32, n);
    } else {
        ev_arr("xs", xs, n);
    }
    ev_end();

    if (!ef && (what & 2)) {
        /* C03: destination of exactly the advertised size, ending at a guard page */
        gbuf tight = gb_alloc(bound);
        enc_out o2;
        memset(&o2, 0, sizeof(o2));
        int tf = GUARDED(encode_into(codec, param, tight.p, xs, x32, n, &o2));
        ev_begin("EncTight");
        ev_int("sc", (long long)scen_id);
        ev_str("codec", CODEC[codec]);
        ev_int("bound", (long long)bound);
        ev_int("fault", tf);
        ev_int("foff", tf == 1 ? gb_fault_off(&tight) : 0);
        ev_int("written", tf ? -1 : (long long)o2.written);
        ev_end();
        gb_free(&tight);
    }

    if (!ef && o.written > 0 && o.written <= room) {
        gbuf src = gb_alloc(o.written);
        memcpy(src.p, dst.p, o.written);
        if (what & 1) {
            for (int k = 0;; k++) {
                const char *api = full_readers(codec, k);
                if (!api) {
                    break;
                }
                run_decode(codec, param, api, &src, o.written, o.bits, n, n);
            }
            run_random_access(codec, &src, o.written, n);
            run_sub_apis(codec, &src, xs, x32, n);
        }
        if (what & 4) {
            /* every capacity up to the count for short arrays, the block and
             * count boundaries otherwise; always the count itself (an output
             * array of exactly as many elements as were encoded) */
            size_t caps[32] = {0, 1, n - 1, n / 2, 127, 128, 129, n > 128 ? n - 128 : 0, n};
            size_t ncaps = 9;
            if (n <= 24) {
                ncaps = 0;
                for (size_t c = 0; c <= n; c++) {
                    caps[ncaps++] = c;
                }
            }
            size_t seen[32];
            size_t ns = 0;
            for (size_t i = 0; i < ncaps; i++) {
                size_t c = caps[i];
                if (c > n) {
                    continue;
                }
                int dup = 0;
                for (size_t j = 0; j < ns; j++) {
                    dup |= seen[j] == c;
                }
                if (dup) {
                    continue;
                }
                seen[ns++] = c;
                if (codec == C_DELTA_S || codec == C_DELTA_U || codec == C_PFOR) {
                    continue; /* no capacity parameter */
                }
                for (int k = 0;; k++) {
                    const char *api = full_readers(codec, k);
                    if (!api) {
                        break;
                    }
                    if (!strcmp(api, "Decode") &&
                        (codec == C_DICT || codec == C_DICT_WITH)) {
                        continue; /* allocating decoder has no capacity */
                    }
                    run_decode(codec, param, api, &src, o.written, o.bits, n, c);
                }
            }
        }
        if (what & 8) {
            run_accessors(codec, &src, o.written, n);
            run_analyzers(codec, xs, x32, n);
            if (!(what & 1) && o.have_meta) {
                /* "the reported count equals the number of elements decoding yields": one full decode */
                run_decode(codec, param, full_readers(codec, 0), &src, o.written, o.bits, n, n);
            }
        }
        gb_free(&src);
    }
    gb_free(&dst);
}

/* ---------------------------------------------------------------- scenario */
/* "all inputs": one run longer than 2^32 elements (thorough tier).  The 32 GiB
 * of zeros are a read-only anonymous mapping (the kernel's zero page, no
 * memory); the destination has exactly the size the exact predictor
 * varintRLESize() promises and ends at an inaccessible page. */
#include <sys/mman.h>
static void giant_run(int codec) {
    size_t n = ((size_t)1 << 32) + 16;
    uint64_t *xs = mmap(NULL, n * 8, PROT_READ, MAP_PRIVATE | MAP_ANONYMOUS | MAP_NORESERVE, -1, 0);
    if (xs == MAP_FAILED) {
        return; /* the host refuses the address space: nothing observed */
    }
    size_t bound = 0, w = 0;
    g_guard_secs = 1200;
    int bf = GUARDED(bound = varintRLESize(xs, n));
    if (!bf && bound > 0 && bound < 4096) {
        gbuf tight = gb_alloc(bound);
        int tf = GUARDED(w = varintRLEEncode(tight.p, xs, n, NULL));
        ev_begin("EncTight");
        ev_int("sc", (long long)scen_id);
        ev_str("codec", CODEC[codec]);
        ev_int("bound", (long long)bound);
        ev_int("fault", tf);
        ev_int("foff", tf == 1 ? gb_fault_off(&tight) : 0);
        ev_int("written", tf ? -1 : (long long)w);
        ev_end();
        gb_free(&tight);
    }
    g_guard_secs = GUARD_SECS;
    munmap(xs, n * 8);
}

static void scenario(int codec, long param, size_t n, const char *shape,
                     long sparam) {
    if (!strcmp(shape, "giantrun")) {
        if ((what & 2) && codec == C_RLE) {
            giant_run(codec);
        }
        return;
    }
    uint64_t *xs = malloc((n + 1) * sizeof(*xs));
    uint32_t *x32 = malloc((n + 1) * sizeof(*x32));
    gen_shape(shape, n, sparam, xs);
    adapted_n = n;
    adapt(codec, param, n, xs);
    n = adapted_n;
    if (n == 0) {
        free(xs);
        free(x32);
        return;
    }
    for (size_t i = 0; i < n; i++) {
        x32[i] = (uint32_t)xs[i];
    }
    if (codec == C_DICT_WITH) {
        g_dict = varintDictCreate();
        /* The dictionary object has a history: it held another, differently
         * sized dictionary before (a long-lived object is rebuilt as the data
         * changes).  Alternately a larger one (300 entries of 9-byte values: a
         * wider index class than most scenarios need) and a smaller one (3). */
        if (g_dict) {
            uint64_t decoy[300];
            size_t dn = (scen_id & 1) ? 3 : 300;
            for (size_t i = 0; i < dn; i++) {
                decoy[i] = ~(uint64_t)0 - 977 * i;
            }
            if (varintDictBuild(g_dict, decoy, dn) != 0) {
                fprintf(stderr, "dict build failed\n");
                exit(2);
            }
        }
        if (!g_dict || varintDictBuild(g_dict, xs, n) != 0) {
            fprintf(stderr, "dict build failed\n");
            exit(2);
        }
    }
    if (codec == C_ADAPTIVE && (what & 8) && n == 1 && (param == -1 || param == 5)) {
        /* automatic selection documents the empty array (analysis of count 0 selects TAGGED,
         * varintAdaptiveMaxSize(0) = 1, the header byte); the sub-encoders of the other forced
         * encodings exclude it from their domain.  The metadata must describe what was written. */
        gbuf e = gb_alloc(varintAdaptiveMaxSize(0));
        varintAdaptiveMeta m;
        memset(&m, 0x5A, sizeof(m));
        size_t w = 0;
        int f = param < 0 ? GUARDED(w = varintAdaptiveEncode(e.p, xs, 0, &m))
                          : GUARDED(w = varintAdaptiveEncodeWith(e.p, xs, 0, (varintAdaptiveEncodingType)param, &m));
        ev_begin("EncEmpty");
        ev_int("sc", (long long)scen_id);
        ev_str("codec", CODEC[codec]);
        ev_int("param", param);
        ev_int("fault", f);
        ev_int("written", f ? -1 : (long long)w);
        ev_int("msize", f ? -1 : clipf((long long)m.encodedSize));
        ev_int("mcount", f ? -1 : clipf((long long)m.originalCount));
        ev_int("mtype", f ? -1 : clipf((long long)m.encodingType));
        ev_int("hdr0", f || w == 0 ? -1 : e.p[0]);
        ev_end();
        gb_free(&e);
    }
    scenario_body(codec, param, n, shape, sparam, xs, x32);
    if ((what & 1) && n >= 4 && n <= 300 && codec != C_DICT_WITH) {
        /* The caller refills the SAME buffers and encodes again: same address,
         * same count, same first and last element, other contents in between
         * (two interior elements swapped, one interior element duplicated).
         * The second encoding is a function of the new contents alone. */
        unsigned keep = what;
        uint64_t t = xs[1];
        xs[1] = xs[n - 2];
        xs[n - 2] = t;
        xs[n / 2] = xs[n / 2 - 1];
        adapted_n = n;
        adapt(codec, param, n, xs);
        if (adapted_n == n) {
            for (size_t i = 0; i < n; i++) {
                x32[i] = (uint32_t)xs[i];
            }
            int prime = g_prime_meta;
            what = 1;
            g_prime_meta = 0; /* the refilled buffer goes straight back to the same entry point */
            scenario_body(codec, param, n, shape, sparam, xs, x32);
            g_prime_meta = prime;
            what = keep;
        }
    }
    if (codec == C_DICT_WITH) {
        varintDictFree(g_dict);
        g_dict = NULL;
    }
    free(xs);
    free(x32);
}

#ifndef DRV_CODECS_NO_MAIN
int main(int argc, char **argv) {
    if (argc < 6) {
        fprintf(stderr, "usage: %s scenarios shard nshards what out\n", argv[0]);
        return 2;
    }
    FILE *f = fopen(argv[1], "r");
    if (!f) {
        perror(argv[1]);
        return 2;
    }
    size_t shard = strtoul(argv[2], NULL, 10), nshards = strtoul(argv[3], NULL, 10);
    what = (unsigned)strtoul(argv[4], NULL, 10);
    tr_open(argv[5]);
    guard_install();
    shim_fence = 1; /* library-internal scratch overruns fault immediately */
    char line[256];
    size_t idx = 0;
    while (fgets(line, sizeof(line), f)) {
        char codec[32], shape[32];
        size_t n;
        long param, sparam;
        g_sp[0] = g_sp[1] = g_sp[2] = 0;
        if (sscanf(line, "%31s %ld %zu %31s %ld %ld %ld %ld", codec, &param, &n, shape,
                   &sparam, &g_sp[0], &g_sp[1], &g_sp[2]) < 5) {
            continue;
        }
        idx++;
        if (idx % nshards != shard) {
            continue;
        }
        int c = -1;
        for (int i = 0; i < C_NCODEC; i++) {
            if (!strcmp(codec, CODEC[i])) {
                c = i;
            }
        }
        if (c < 0 || n == 0) {
            fprintf(stderr, "bad scenario: %s", line);
            return 2;
        }
        scen_id = idx;
        rng_seed(env_seed() * 1000003ULL + idx);
        scenario(c, param, n, shape, sparam);
        /* the encoders' meta == NULL path (documented as optional output) is
         * other code: same scenario, same readers */
        if ((what & 1) && (c == C_FOR || c == C_FOR_BATCH || c == C_RLE || c == C_RLE_HDR || c == C_GAMMA ||
                           c == C_EDELTA || c == C_BP32 || c == C_BP64 || c == C_BPD32 || c == C_BPD64 ||
                           c == C_ADAPTIVE) && n <= 300) {
            g_null_meta = 1;
            rng_seed(env_seed() * 1000003ULL + idx);
            scenario(c, param, n, shape, sparam);
            g_null_meta = 0;
        }
    }
    fclose(f);
    tr_close();
    return 0;
}
#endif
