#define BS_BITS 64
#include "bs_inst.inc"
