#define BS_BITS 32
#include "bs_inst.inc"
