/* Hostile-input driver (C14): length-taking decoders on arbitrary bytes.
 *
 *   drv_hostile <inputs> <shard> <nshards> <out.ndjson>
 *
 * input line:  <api> <declared> <cap> <why> <nbytes> b0 b1 ...
 * The bytes are placed so that byte `nbytes` is the first byte of a PROT_NONE
 * page; for the byte-length APIs nbytes == declared, for the Elias APIs
 * declared is a bit count and nbytes = ceil(declared/8) bytes are mapped.
 * The allocator is fenced and records the largest request; a per-call alarm
 * turns non-termination into a Hang outcome. */
#define _GNU_SOURCE
#include "varint.h"
#include "varintBitmap.h"
#include "varintDict.h"
#include "varintElias.h"
#include "varintRLE.h"
#include "varintBP128.h"
#include "varintTagged.h"

#define VERIF_SHIM 1
#include "guard.h"
#include "trace.h"

static void run_one(const char *api, long declared, long cap, const char *why,
                    const uint8_t *bytes, size_t nbytes) {
    gbuf src = gb_alloc(nbytes);
    memcpy(src.p, bytes, nbytes);
    size_t outn = cap > 0 ? (size_t)cap : 0;
    gbuf out = gb_alloc(outn * 8);
    memset(out.p, 0xA7, outn * 8);
    uint64_t *o64 = (uint64_t *)out.p;
    long long ret = -1;
    uint64_t val = 0;
    int f = 0;
    size_t nys = 0;
    uint64_t *heap_out = NULL;
    varintBitmap *vb = NULL;
    shim_reset();
    shim_cap = (size_t)1 << 30; /* refuse (and record) requests above 1 GiB */

    if (!strcmp(api, "TaggedGet")) {
        varintWidth w = 0;
        f = GUARDED(w = varintTaggedGet(src.p, (int32_t)declared, &val));
        ret = w;
    } else if (!strcmp(api, "DictDecode")) {
        size_t cnt = 0;
        f = GUARDED(heap_out = varintDictDecode(src.p, (size_t)declared, &cnt));
        ret = heap_out ? (long long)cnt : 0;
        nys = heap_out && cnt < 4096 ? cnt : 0;
    } else if (!strcmp(api, "DictDecodeInto")) {
        size_t r = 0;
        f = GUARDED(r = varintDictDecodeInto(src.p, (size_t)declared, o64, outn));
        ret = (long long)r;
        nys = r <= outn ? r : outn;
    } else if (!strcmp(api, "EliasGammaDecodeArray")) {
        size_t r = 0;
        f = GUARDED(r = varintEliasGammaDecodeArray(src.p, (size_t)declared, o64, outn));
        ret = (long long)r;
        nys = r <= outn ? r : outn;
    } else if (!strcmp(api, "EliasDeltaDecodeArray")) {
        size_t r = 0;
        f = GUARDED(r = varintEliasDeltaDecodeArray(src.p, (size_t)declared, o64, outn));
        ret = (long long)r;
        nys = r <= outn ? r : outn;
    } else if (!strcmp(api, "BitmapDecode")) {
        f = GUARDED(vb = varintBitmapDecode(src.p, (size_t)declared));
        ret = vb ? 1 : 0;
    } else if (!strcmp(api, "BP128GetCount")) {
        size_t cnt = 0;
        f = GUARDED(cnt = varintBP128GetCount(src.p, (size_t)declared));
        ret = (long long)(cnt > (1ULL << 40) ? (1ULL << 40) : cnt);
    } else if (!strcmp(api, "RLEGetRunCount")) {
        size_t r = 0;
        f = GUARDED(r = varintRLEGetRunCount(src.p, (size_t)declared));
        ret = (long long)r;
    } else {
        fprintf(stderr, "unknown api %s\n", api);
        exit(2);
    }

    ev_begin("Hostile");
    ev_str("api", api);
    ev_str("why", why);
    ev_int("declared", declared);
    ev_int("cap", cap);
    ev_int("nbytes", (long long)nbytes);
    ev_bytes("in", bytes, nbytes < 64 ? nbytes : 64);
    ev_int("fault", f);
    ev_int("foff_src", f == 1 ? gb_fault_off(&src) : 0);
    ev_int("foff_out", f == 1 ? gb_fault_off(&out) : 0);
    ev_int("ret", f ? -1 : (ret > (1LL << 30) ? (1LL << 30) : ret));
    /* largest single allocation request of the call, in KiB (rounded up) */
    ev_int("maxalloc_kib", (long long)((shim_max_req + 1023) / 1024 > (1u << 30)
                                           ? (1u << 30)
                                           : (shim_max_req + 1023) / 1024));
    ev_int("refused", shim_refused);
    ev_word("val", val);
    if (heap_out && !f) {
        ev_arr("ys", heap_out, nys);
    } else {
        ev_arr("ys", o64, f ? 0 : nys);
    }
    ev_end();
    if (!f) {
        free(heap_out);
        varintBitmapFree(vb);
    } else {
        shim_forget_all();
    }
    gb_free(&src);
    gb_free(&out);
}

int main(int argc, char **argv) {
    if (argc < 5) {
        fprintf(stderr, "usage: %s inputs shard nshards out\n", argv[0]);
        return 2;
    }
    FILE *f = fopen(argv[1], "r");
    if (!f) {
        perror(argv[1]);
        return 2;
    }
    size_t shard = strtoul(argv[2], NULL, 10), nshards = strtoul(argv[3], NULL, 10);
    tr_open(argv[4]);
    guard_install();
    shim_fence = 1;
    static char line[1 << 16];
    static uint8_t bytes[1 << 14];
    size_t idx = 0;
    while (fgets(line, sizeof(line), f)) {
        idx++;
        if (idx % nshards != shard) {
            continue;
        }
        char api[48], why[32];
        long declared, cap;
        size_t nbytes;
        int pos = 0;
        if (sscanf(line, "%47s %ld %ld %31s %zu%n", api, &declared, &cap, why,
                   &nbytes, &pos) != 5) {
            continue;
        }
        if (nbytes > sizeof(bytes)) {
            continue;
        }
        char *p = line + pos;
        for (size_t i = 0; i < nbytes; i++) {
            bytes[i] = (uint8_t)strtoul(p, &p, 10);
        }
        run_one(api, declared, cap, why, bytes, nbytes);
    }
    fclose(f);
    tr_close();
    return 0;
}
