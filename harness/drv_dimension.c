/* Dimension / matrix driver (C10).
 *
 *   drv_dimension <dims> <shard> <nshards> <out.ndjson>
 *
 * dims file: lines "DIM r0..r7 c0..c7" (row and column counts as 8 LE bytes,
 * from spec/DimensionModel.tla).  For each pair: header round trip, packed
 * form, and cell writes at {row 0, row 1, last row} x {col 0, last col}
 * wherever the cell's address is below 2^40; the matrix is a PROT_NONE
 * reservation in which only the header page and the page(s) of the expected
 * cell are accessible, so a mis-decoded width or a wrong offset faults.
 * Then small fully-allocated matrices of every entry kind with 14-step write
 * sequences, each step also re-reading an earlier cell.
 *
 * Observations per write: every byte of the accessible pages that changed
 * (offset, old, new), the bytes at the cell, the value read back. */
#define _GNU_SOURCE
#include "varint.h"
#include "varintDimension.h"
#include "varintExternal.h"

#include "guard.h"
#include "trace.h"

bool varintDimensionPairEntryGetBit(const void *, size_t, size_t, varintDimensionPair);
void varintDimensionPairEntrySetBit(void *, size_t, size_t, bool, varintDimensionPair);
bool varintDimensionPairEntryToggleBit(void *, size_t, size_t, varintDimensionPair);

#define PAGE 4096UL
#define ADDR_LIMIT (1ULL << 40)

static uint64_t rd8(const unsigned *b) {
    uint64_t v = 0;
    for (int i = 7; i >= 0; i--) {
        v = (v << 8) | (b[i] & 255);
    }
    return v;
}

static void hdr_and_pack(uint64_t rows, uint64_t cols) {
    uint8_t hdr[24];
    for (int i = 0; i < 24; i++) {
        hdr[i] = (uint8_t)(0xB1 + 3 * i);
    }
    varintDimensionPair dim = 0;
    int f = GUARDED(dim = varintDimensionPairEncode(hdr, rows, cols));
    varintDimensionPair dim2 = varintDimensionPairDimension(rows, cols);
    ev_begin("DimHdr");
    ev_word("rows", rows);
    ev_word("cols", cols);
    ev_int("fault", f);
    ev_int("dim", (long long)dim);
    ev_int("dim2", (long long)dim2);
    ev_int("wr", VARINT_DIMENSION_PAIR_WIDTH_ROW_COUNT(dim));
    ev_int("wc", VARINT_DIMENSION_PAIR_WIDTH_COL_COUNT(dim));
    ev_int("len", VARINT_DIMENSION_PAIR_BYTE_LENGTH(dim));
    ev_int("sparse", VARINT_DIMENSION_PAIR_IS_SPARSE(dim));
    ev_bytes("hdr", hdr, 24);
    ev_end();

    uint64_t packed = 0;
    varintDimensionPacked lvl = 0;
    bool ok = false;
    f = GUARDED(ok = varintDimensionPack(rows, cols, &packed, &lvl));
    size_t ur = 0, uc = 0, mr = 0, mc = 0;
    if (!f && ok) {
        varintDimensionUnpack(&ur, &uc, packed, lvl);
        varintDimensionUnpack_(mr, mc, packed, lvl);
    }
    ev_begin("DimPack");
    ev_word("rows", rows);
    ev_word("cols", cols);
    ev_int("fault", f);
    ev_int("ok", ok);
    ev_int("level", ok ? (long long)lvl : 0);
    ev_word("packed", ok ? packed : 0);
    ev_word("ur", ur);
    ev_word("uc", uc);
    ev_word("mr", mr);
    ev_word("mc", mc);
    ev_end();
}

/* an accessible window of the matrix */
typedef struct win {
    uint64_t off; /* offset of the window within the matrix */
    size_t len;
    uint8_t *snap;
} win;

static uint8_t *mat; /* start of matrix (header) */
static win wins[3];
static int nwins;

static void snap_wins(void) {
    for (int i = 0; i < nwins; i++) {
        memcpy(wins[i].snap, mat + wins[i].off, wins[i].len);
    }
}
static void put_diff(void) {
    fprintf(tr_f, ",\"diff\":[");
    int first = 1, cnt = 0;
    for (int i = 0; i < nwins; i++) {
        /* skip a window fully contained in an earlier one */
        int dup = 0;
        for (int j = 0; j < i; j++) {
            dup |= wins[j].off == wins[i].off;
        }
        if (dup) {
            continue;
        }
        for (size_t k = 0; k < wins[i].len && cnt < 64; k++) {
            uint8_t now = mat[wins[i].off + k];
            if (now != wins[i].snap[k]) {
                if (!first) {
                    fputc(',', tr_f);
                }
                first = 0;
                fputc('[', tr_f);
                put_word(wins[i].off + k);
                fprintf(tr_f, ",%u,%u]", wins[i].snap[k], now);
                cnt++;
            }
        }
    }
    fputc(']', tr_f);
}

static const char *KINDS[] = {"bit", "u", "float", "double", "half"};

/* one write + read back; value as raw bits */
static void cell_write(uint64_t rows, uint64_t cols, varintDimensionPair dim,
                       int kind, int w, const char *op, uint64_t r, uint64_t c,
                       uint64_t valbits, uint64_t celloff, int bitno,
                       int have_probe, uint64_t pr, uint64_t pc) {
    snap_wins();
    int f = 0;
    long ret = 0;
    uint64_t got = 0, probe = 0;
    if (kind == 0) {
        bool b = false;
        if (!strcmp(op, "Toggle")) {
            f = GUARDED(b = varintDimensionPairEntryToggleBit(mat, r, c, dim));
            ret = b;
        } else {
            f = GUARDED(varintDimensionPairEntrySetBit(mat, r, c, valbits != 0, dim));
        }
        if (!f) {
            f = GUARDED(b = varintDimensionPairEntryGetBit(mat, r, c, dim));
            got = b;
        }
        if (!f && have_probe) {
            f = GUARDED(b = varintDimensionPairEntryGetBit(mat, pr, pc, dim));
            probe = b;
        }
    } else if (kind == 1) {
        f = GUARDED(varintDimensionPairEntrySetUnsigned(mat, r, c, valbits, (varintWidth)w, dim));
        if (!f) {
            f = GUARDED(got = varintDimensionPairEntryGetUnsigned(mat, r, c, (varintWidth)w, dim));
        }
        if (!f && have_probe) {
            f = GUARDED(probe = varintDimensionPairEntryGetUnsigned(mat, pr, pc, (varintWidth)w, dim));
        }
    } else if (kind == 2) {
        float x, y = 0;
        uint32_t b32 = (uint32_t)valbits;
        memcpy(&x, &b32, 4);
        f = GUARDED(varintDimensionPairEntrySetFloat(mat, r, c, x, dim));
        if (!f) {
            f = GUARDED(y = varintDimensionPairEntryGetFloat(mat, r, c, dim));
            memcpy(&b32, &y, 4);
            got = b32;
        }
        if (!f && have_probe) {
            f = GUARDED(y = varintDimensionPairEntryGetFloat(mat, pr, pc, dim));
            memcpy(&b32, &y, 4);
            probe = b32;
        }
    } else if (kind == 3) {
        double x, y = 0;
        memcpy(&x, &valbits, 8);
        f = GUARDED(varintDimensionPairEntrySetDouble(mat, r, c, x, dim));
        if (!f) {
            f = GUARDED(y = varintDimensionPairEntryGetDouble(mat, r, c, dim));
            memcpy(&got, &y, 8);
        }
        if (!f && have_probe) {
            f = GUARDED(y = varintDimensionPairEntryGetDouble(mat, pr, pc, dim));
            memcpy(&probe, &y, 8);
        }
    } else {
#ifdef __F16C__
        float x, y = 0;
        uint32_t b32 = (uint32_t)valbits;
        memcpy(&x, &b32, 4);
        f = GUARDED(varintDimensionPairEntrySetFloatHalf(mat, r, c, x, dim));
        if (!f) {
            f = GUARDED(y = varintDimensionPairEntryGetFloatHalf(mat, r, c, dim));
            memcpy(&b32, &y, 4);
            got = b32;
        }
        if (!f && have_probe) {
            f = GUARDED(y = varintDimensionPairEntryGetFloatHalf(mat, pr, pc, dim));
            memcpy(&b32, &y, 4);
            probe = b32;
        }
#else
        return;
#endif
    }
    ev_begin("DimCell");
    ev_word("rows", rows);
    ev_word("cols", cols);
    ev_str("kind", KINDS[kind]);
    ev_int("w", w);
    ev_str("op", op);
    ev_word("r", r);
    ev_word("c", c);
    ev_word("val", valbits);
    ev_int("fault", f);
    ev_int("ret", ret);
    ev_word("off", celloff);
    ev_int("bitno", bitno);
    put_diff();
    if (!f) {
        ev_bytes("cell", mat + celloff, (size_t)(kind == 0 ? 1 : w));
    } else {
        ev_bytes("cell", mat, 0);
    }
    ev_word("got", got);
    ev_int("have_probe", have_probe);
    ev_word("pr", pr);
    ev_word("pc", pc);
    ev_word("probe", probe);
    ev_end();
}

/* sparse reservation: header page + the pages of one cell */
static void sparse_cells(uint64_t rows, uint64_t cols) {
    varintWidth wr = 0, wc = 0;
    if (rows) {
        varintExternalUnsignedEncoding(rows, wr);
    }
    varintExternalUnsignedEncoding(cols, wc);
    uint64_t hdrlen = (uint64_t)wr + wc;
    uint64_t rsel[3] = {0, 1, rows ? rows - 1 : 0};
    uint64_t csel[2] = {0, cols - 1};
    static const int ws[] = {1, 3, 8};
    for (int ri = 0; ri < 3; ri++) {
        for (int ci = 0; ci < 2; ci++) {
            uint64_t r = rsel[ri], c = csel[ci];
            if ((r && r >= rows) || r >= (1ULL << 31)) {
                continue; /* the trace spec multiplies by a native row index */
            }
            for (int kind = 0; kind < 2; kind++) {
                for (int wi = 0; wi < (kind ? 3 : 1); wi++) {
                    int w = kind ? ws[wi] : 1;
                    /* feasibility, in 128-bit arithmetic */
                    __uint128_t idx = (__uint128_t)r * cols + c;
                    __uint128_t off = kind ? (hdrlen + idx * (unsigned)w) : (hdrlen + idx / 8);
                    if (off + 16 >= ADDR_LIMIT) {
                        continue;
                    }
                    uint64_t celloff = (uint64_t)off;
                    size_t total = (size_t)((celloff + 16 + PAGE) / PAGE * PAGE + PAGE);
                    uint8_t *m = mmap(NULL, total, PROT_NONE,
                                      MAP_PRIVATE | MAP_ANONYMOUS | MAP_NORESERVE, -1, 0);
                    if (m == MAP_FAILED) {
                        continue;
                    }
                    uint64_t p0 = celloff / PAGE * PAGE;
                    uint64_t p1 = (celloff + (unsigned)w - 1) / PAGE * PAGE;
                    mprotect(m, PAGE, PROT_READ | PROT_WRITE);
                    mprotect(m + p0, (size_t)(p1 - p0 + PAGE), PROT_READ | PROT_WRITE);
                    mat = m;
                    memset(m, 0x6D, PAGE);
                    memset(m + p0, 0x6D, (size_t)(p1 - p0 + PAGE));
                    varintDimensionPair dim = varintDimensionPairEncode(m, rows, cols);
                    static uint8_t s0[PAGE], s1[2 * PAGE];
                    nwins = 2;
                    wins[0].off = 0;
                    wins[0].len = PAGE;
                    wins[0].snap = s0;
                    wins[1].off = p0;
                    wins[1].len = (size_t)(p1 - p0 + PAGE);
                    wins[1].snap = s1;
                    if (kind == 0) {
                        int bitno = (int)(idx % 8);
                        cell_write(rows, cols, dim, 0, 1, "SetBit", r, c, 1, celloff, bitno, 0, 0, 0);
                        cell_write(rows, cols, dim, 0, 1, "SetBit", r, c, 0, celloff, bitno, 0, 0, 0);
                        cell_write(rows, cols, dim, 0, 1, "Toggle", r, c, 0, celloff, bitno, 0, 0, 0);
                    } else {
                        uint64_t v = rng_u64();
                        if (w < 8) {
                            v &= (1ULL << (8 * w)) - 1;
                        }
                        cell_write(rows, cols, dim, 1, w, "Set", r, c, v, celloff, 0, 0, 0, 0);
                    }
                    munmap(m, total);
                }
            }
        }
    }
}

/* small, fully allocated matrices: write sequences with cross-cell probes */
static gbuf g_last;
static size_t g_last_total;
static int g_received;
static void small_matrix(uint64_t rows, uint64_t cols, int kind, int w) {
    varintWidth wr = 0, wc = 0;
    if (rows) {
        varintExternalUnsignedEncoding(rows, wr);
    }
    varintExternalUnsignedEncoding(cols, wc);
    uint64_t hdrlen = (uint64_t)wr + wc;
    uint64_t nrows = rows ? rows : 1;
    uint64_t cells = nrows * cols;
    size_t body = kind == 0 ? (size_t)((cells + 7) / 8) : (size_t)(cells * (unsigned)w);
    size_t total = (size_t)hdrlen + body;
    /* the matrix ends at a guard page.  g_received: this matrix arrives as an
     * image copied over the storage of the previous one (same address, same
     * size, another shape): its header is not written by the library here */
    gbuf g;
    int received = g_received && g_last.map && g_last_total == total;
    if (received) {
        g = g_last;
    } else {
        if (g_last.map) {
            gb_free(&g_last);
        }
        g = gb_alloc(total);
    }
    g_last.map = NULL;
    for (size_t i = 0; i < total; i++) {
        g.p[i] = (uint8_t)rng_u64();
    }
    mat = g.p;
    varintDimensionPair dim;
    if (received) {
        uint8_t image[32];
        dim = varintDimensionPairEncode(image, rows, cols);
        memcpy(mat, image, (size_t)hdrlen);
    } else {
        dim = varintDimensionPairEncode(mat, rows, cols);
    }
    uint8_t *snap = malloc(total);
    nwins = 1;
    wins[0].off = 0;
    wins[0].len = total;
    wins[0].snap = snap;
    ev_begin("DimNew");
    ev_word("rows", rows);
    ev_word("cols", cols);
    ev_str("kind", KINDS[kind]);
    ev_int("w", w);
    ev_end();
    uint64_t lr[16], lc[16];
    int nl = 0;
    for (int s = 0; s < 14; s++) {
        uint64_t r = rng_u64() % nrows, c = rng_u64() % cols;
        if (s == 0) {
            r = 0;
            c = 0;
        } else if (s == 1) {
            r = nrows - 1;
            c = cols - 1;
        } else if (s == 2 && nl) {
            r = lr[0];
            c = lc[0]; /* overwrite */
        }
        uint64_t idx = r * cols + c;
        uint64_t celloff = kind == 0 ? hdrlen + idx / 8 : hdrlen + idx * (unsigned)w;
        int have_probe = nl > 0;
        uint64_t pr = 0, pc = 0;
        if (have_probe) {
            int k = (int)(rng_u64() % (unsigned)nl);
            pr = lr[k];
            pc = lc[k];
        }
        if (kind == 0) {
            unsigned o = (unsigned)(rng_u64() % 3);
            cell_write(rows, cols, dim, 0, 1, o == 2 ? "Toggle" : "SetBit", r, c, o == 1,
                       celloff, (int)(idx % 8), have_probe, pr, pc);
        } else if (kind == 1) {
            uint64_t v = rng_u64();
            if (w < 8) {
                v &= (1ULL << (8 * w)) - 1;
            }
            cell_write(rows, cols, dim, 1, w, "Set", r, c, v, celloff, 0, have_probe, pr, pc);
        } else if (kind == 2) {
            cell_write(rows, cols, dim, 2, 4, "Set", r, c, rng_u64() & 0xFFFFFFFFULL, celloff, 0,
                       have_probe, pr, pc);
        } else if (kind == 3) {
            cell_write(rows, cols, dim, 3, 8, "Set", r, c, rng_u64(), celloff, 0, have_probe, pr, pc);
        } else {
            /* values exactly representable in binary16 */
            static const float hv[] = {0.0f, 1.0f, -2.5f, 65504.0f, 0.000061035156f, -0.5f, 1024.0f};
            float x = hv[rng_u64() % 7];
            uint32_t b32;
            memcpy(&b32, &x, 4);
            cell_write(rows, cols, dim, 4, 2, "Set", r, c, b32, celloff, 0, have_probe, pr, pc);
        }
        if (nl < 16) {
            lr[nl] = r;
            lc[nl] = c;
            nl++;
        }
    }
    free(snap);
    g_last = g; /* kept mapped: the next matrix may be copied over it */
    g_last_total = total;
}

int main(int argc, char **argv) {
    if (argc < 5) {
        fprintf(stderr, "usage: %s dims shard nshards out\n", argv[0]);
        return 2;
    }
    FILE *f = fopen(argv[1], "r");
    if (!f) {
        perror(argv[1]);
        return 2;
    }
    size_t shard = strtoul(argv[2], NULL, 10), nshards = strtoul(argv[3], NULL, 10);
    tr_open(argv[4]);
    guard_install();
    char line[512];
    size_t idx = 0;
    while (fgets(line, sizeof(line), f)) {
        unsigned b[16];
        if (sscanf(line, "DIM %u %u %u %u %u %u %u %u %u %u %u %u %u %u %u %u", &b[0],
                   &b[1], &b[2], &b[3], &b[4], &b[5], &b[6], &b[7], &b[8], &b[9], &b[10],
                   &b[11], &b[12], &b[13], &b[14], &b[15]) != 16) {
            continue;
        }
        idx++;
        if (idx % nshards != shard) {
            continue;
        }
        rng_seed(env_seed() * 131 + idx);
        uint64_t rows = rd8(b), cols = rd8(b + 8);
        hdr_and_pack(rows, cols);
        sparse_cells(rows, cols);
    }
    fclose(f);
    static const uint64_t small[][2] = {{0, 1}, {0, 9}, {1, 1}, {3, 3}, {2, 9}, {5, 7},
                                        {3, 256}, {256, 3}, {1, 300}, {17, 16}};
    size_t k = 0;
    for (int rep = 0; rep < 6; rep++) {
        for (size_t m = 0; m < 10; m++) {
            for (int kind = 0; kind < 5; kind++) {
                for (int w = 1; w <= (kind == 1 ? 8 : 1); w++) {
                    k++;
                    if (k % nshards != shard) {
                        continue;
                    }
                    rng_seed(env_seed() * 977 + k);
                    small_matrix(small[m][0], small[m][1], kind,
                                 kind == 1 ? w : kind == 2 ? 4 : kind == 3 ? 8 : kind == 4 ? 2 : 1);
                }
            }
        }
    }
    /* pairs of shapes with the same number of cells and the same header
     * widths: the second arrives as an image copied over the first */
    static const uint64_t reshaped[][2][2] = {{{3, 4}, {4, 3}}, {{2, 6}, {6, 2}}, {{4, 3}, {2, 6}}, {{1, 12}, {12, 1}},
                                              {{5, 7}, {7, 5}}, {{3, 4}, {1, 12}}, {{16, 17}, {17, 16}}};
    for (size_t m = 0; m < sizeof(reshaped) / sizeof(reshaped[0]); m++) {
        for (int kind = 0; kind < 5; kind++) {
            for (int w = 1; w <= (kind == 1 ? 8 : 1); w += 3) {
                k++;
                if (k % nshards != shard) {
                    continue;
                }
                int ww = kind == 1 ? w : kind == 2 ? 4 : kind == 3 ? 8 : kind == 4 ? 2 : 1;
                rng_seed(env_seed() * 977 + k);
                g_received = 0;
                small_matrix(reshaped[m][0][0], reshaped[m][0][1], kind, ww);
                g_received = 1;
                small_matrix(reshaped[m][1][0], reshaped[m][1][1], kind, ww);
                g_received = 0;
            }
        }
    }
    tr_close();
    return 0;
}
