/* Observability helpers: guard-page buffers and fault capture.
 *
 * gb_alloc(n): n usable bytes whose END is immediately followed by a PROT_NONE
 * page (writes/reads at offset >= n fault); gb_alloc_front(n): the page BEFORE
 * the buffer is PROT_NONE.  GUARDED(stmt) runs stmt and evaluates to 1 if it
 * raised SIGSEGV/SIGBUS (recorded in g_fault_*), 2 on SIGPROF / SIGALRM (hang: CPU-time budget), 3 on
 * SIGABRT (assert / sanitizer abort), 0 otherwise.  None of these outcomes is
 * an action of the specification, so the trace spec rejects them. */
#ifndef VERIF_GUARD_H
#define VERIF_GUARD_H
#define _GNU_SOURCE
#include <setjmp.h>
#include <signal.h>
#include <stdio.h>
#include <stdint.h>
#include <stdlib.h>
#include <string.h>
#include <sys/mman.h>
#include <sys/time.h>
#include <unistd.h>

#define GB_PAGE 4096UL

typedef struct gbuf {
    uint8_t *map;
    size_t maplen;
    uint8_t *p; /* usable start */
    size_t n;
} gbuf;

static inline gbuf gb_alloc(size_t n) {
    gbuf g;
    size_t pages = (n + GB_PAGE - 1) / GB_PAGE;
    if (pages == 0) {
        pages = 1;
    }
    g.maplen = (pages + 1) * GB_PAGE;
    g.map = mmap(NULL, g.maplen, PROT_READ | PROT_WRITE,
                 MAP_PRIVATE | MAP_ANONYMOUS, -1, 0);
    if (g.map == MAP_FAILED) {
        perror("mmap");
        exit(2);
    }
    mprotect(g.map + pages * GB_PAGE, GB_PAGE, PROT_NONE);
    g.p = g.map + pages * GB_PAGE - n;
    g.n = n;
    memset(g.map, 0xEE, pages * GB_PAGE);
    return g;
}
static inline gbuf gb_alloc_front(size_t n) {
    gbuf g;
    size_t pages = (n + GB_PAGE - 1) / GB_PAGE;
    if (pages == 0) {
        pages = 1;
    }
    g.maplen = (pages + 1) * GB_PAGE;
    g.map = mmap(NULL, g.maplen, PROT_READ | PROT_WRITE,
                 MAP_PRIVATE | MAP_ANONYMOUS, -1, 0);
    if (g.map == MAP_FAILED) {
        perror("mmap");
        exit(2);
    }
    mprotect(g.map, GB_PAGE, PROT_NONE);
    g.p = g.map + GB_PAGE;
    g.n = n;
    memset(g.p, 0xEE, pages * GB_PAGE);
    return g;
}
static inline void gb_free(gbuf *g) {
    if (g->map) {
        munmap(g->map, g->maplen);
    }
    g->map = NULL;
}

static sigjmp_buf g_jb;
static volatile sig_atomic_t g_armed;
static volatile uintptr_t g_fault_addr;
static volatile int g_fault_sig;

/* optional: told when the process dies OUTSIDE a guarded call -- in practice
 * glibc aborting in the harness's own free()/malloc() because an earlier
 * library call corrupted the heap.  A driver that can attribute the crash
 * logs it as an event and _exit(0)s so that the trace survives. */
static void (*g_late_crash)(int sig);

static void g_handler(int sig, siginfo_t *si, void *ctx) {
    (void)ctx;
    if (!g_armed) {
        if (g_late_crash) {
            void (*cb)(int) = g_late_crash;
            g_late_crash = NULL;
            cb(sig);
        }
        /* a fault in the harness itself: die loudly */
        signal(sig, SIG_DFL);
        raise(sig);
        return;
    }
    g_armed = 0;
    g_fault_sig = sig;
    g_fault_addr = (uintptr_t)si->si_addr;
    siglongjmp(g_jb, (sig == SIGALRM || sig == SIGPROF) ? 2 : sig == SIGABRT ? 3 : 1);
}

static inline void guard_install(void) {
    static uint8_t altstack[1 << 16];
    stack_t ss;
    ss.ss_sp = altstack;
    ss.ss_size = sizeof(altstack);
    ss.ss_flags = 0;
    sigaltstack(&ss, NULL);
    struct sigaction sa;
    memset(&sa, 0, sizeof(sa));
    sa.sa_sigaction = g_handler;
    sa.sa_flags = SA_SIGINFO | SA_ONSTACK | SA_NODEFER;
    sigemptyset(&sa.sa_mask);
    sigaction(SIGSEGV, &sa, NULL);
    sigaction(SIGBUS, &sa, NULL);
    sigaction(SIGALRM, &sa, NULL);
    sigaction(SIGPROF, &sa, NULL);
    sigaction(SIGABRT, &sa, NULL);
    sigaction(SIGFPE, &sa, NULL);
    sigaction(SIGILL, &sa, NULL);
}

#ifdef VERIF_SHIM
#include "allocshim.h"
#define G_SHIM(v) (shim_on = (v))
#else
#define G_SHIM(v) ((void)0)
#endif
static int g_rc;
#define GUARD_SECS 10
static unsigned g_guard_secs = GUARD_SECS; /* a driver raises it around a deliberately long call */
/* A call "hangs" when it burns g_guard_secs of CPU time (ITIMER_PROF: a busy
 * machine that deschedules the process does not count), or, as a backstop for
 * a call that blocks without burning CPU, 40x that in wall-clock time. */
static inline void guard_arm(unsigned secs) {
    struct itimerval it;
    memset(&it, 0, sizeof(it));
    it.it_value.tv_sec = secs;
    setitimer(ITIMER_PROF, &it, NULL);
    alarm(secs * 40);
}
static inline void guard_disarm(void) {
    struct itimerval it;
    memset(&it, 0, sizeof(it));
    setitimer(ITIMER_PROF, &it, NULL);
    alarm(0);
}
#define GUARDED(stmt)                                                          \
    (g_rc = sigsetjmp(g_jb, 1),                                                \
     g_rc == 0 ? (g_armed = 1, guard_arm(g_guard_secs), G_SHIM(1), (void)(stmt), \
                  G_SHIM(0), guard_disarm(), g_armed = 0, 0)                   \
               : (G_SHIM(0), guard_disarm(), g_rc))

/* where did the fault land relative to a buffer? offset or -1 */
static inline long gb_fault_off(const gbuf *g) {
    uintptr_t a = g_fault_addr;
    if (a >= (uintptr_t)g->map && a < (uintptr_t)g->map + g->maplen) {
        return (long)(a - (uintptr_t)g->p);
    }
    return -1000000;
}
#endif
