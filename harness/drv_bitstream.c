/* Bitstream driver (C11): varintBitstreamSet/Get for each documented word
 * type, every (offset mod word, width) pair, several value and prior-content
 * classes.
 *
 *   drv_bitstream <shard> <nshards> <dense> <out.ndjson>
 *
 * Two executions per case:
 *   "iso"   stream = [word before][words overlapping the range][word after]:
 *           full before/after images are logged (isolation of every other bit);
 *   "tight" stream = exactly the words overlapping the range, ending at a
 *           PROT_NONE page: touching any further word faults. */
#define _GNU_SOURCE
#include "guard.h"
#include "trace.h"

#define DECL(B)                                                                \
    void bs_set_##B(void *, size_t, size_t, uint64_t);                         \
    uint64_t bs_get_##B(const void *, size_t, size_t);                         \
    uint64_t bs_rmw_##B(void *, size_t, size_t, uint64_t, uint64_t *);         \
    int64_t bs_prep_##B(int64_t, unsigned);                                    \
    int64_t bs_rest_##B(int64_t, unsigned);                                    \
    int64_t bs_signed_rt_##B(int64_t, unsigned, size_t);
DECL(64) DECL(32) DECL(16) DECL(8)

static void do_set(unsigned W, void *dst, size_t off, size_t w, uint64_t v) {
    switch (W) {
    case 64: bs_set_64(dst, off, w, v); break;
    case 32: bs_set_32(dst, off, w, v); break;
    case 16: bs_set_16(dst, off, w, v); break;
    default: bs_set_8(dst, off, w, v); break;
    }
}
static uint64_t do_get(unsigned W, const void *src, size_t off, size_t w) {
    switch (W) {
    case 64: return bs_get_64(src, off, w);
    case 32: return bs_get_32(src, off, w);
    case 16: return bs_get_16(src, off, w);
    default: return bs_get_8(src, off, w);
    }
}

/* words are logged as their VALUE, most significant byte first, so that the
 * flat MSB-first bit string is simply the concatenation */
static void put_words(const char *key, const uint8_t *mem, unsigned W, size_t nwords) {
    fprintf(tr_f, ",\"%s\":[", key);
    size_t wb = W / 8;
    int first = 1;
    for (size_t i = 0; i < nwords; i++) {
        for (size_t k = 0; k < wb; k++) {
            /* little-endian host: byte wb-1-k is the k-th most significant */
            fprintf(tr_f, first ? "%u" : ",%u", mem[i * wb + (wb - 1 - k)]);
            first = 0;
        }
    }
    fputc(']', tr_f);
}

static volatile uint64_t g_rmw_sink;
static uint64_t do_rmw(unsigned W, void *dst, size_t off, size_t w, uint64_t v) {
    uint64_t prior = 0, after;
    switch (W) {
    case 64: after = bs_rmw_64(dst, off, w, v, &prior); break;
    case 32: after = bs_rmw_32(dst, off, w, v, &prior); break;
    case 16: after = bs_rmw_16(dst, off, w, v, &prior); break;
    default: after = bs_rmw_8(dst, off, w, v, &prior); break;
    }
    g_rmw_sink ^= prior;
    return after;
}
static void fill(uint8_t *mem, size_t n, int prior) {
    for (size_t i = 0; i < n; i++) {
        mem[i] = prior == 0 ? 0 : prior == 1 ? 0xFF : (uint8_t)rng_u64();
    }
}

static void one_case(unsigned W, size_t off, size_t w, uint64_t val, int prior) {
    size_t wb = W / 8;
    size_t overlap = (off + w + W - 1) / W; /* off < W */
    /* iso */
    {
        size_t nwords = overlap + 2;
        uint8_t mem[8 * 5], pre[8 * 5];
        fill(mem, nwords * wb, prior);
        memcpy(pre, mem, nwords * wb);
        uint64_t got = 0;
        int f = GUARDED(do_set(W, mem, W + off, w, val));
        int gf = f ? 0 : GUARDED(got = do_get(W, mem, W + off, w));
        ev_begin("Bs");
        ev_str("mode", "iso");
        ev_int("word", W);
        ev_int("off", (long long)(W + off));
        ev_int("width", (long long)w);
        ev_word("val", val);
        ev_int("fault", f ? f : gf);
        put_words("pre", pre, W, nwords);
        put_words("post", mem, W, nwords);
        ev_word("got", got);
        ev_end();
    }
    /* iso again, as a read-modify-write-verify inside one function */
    {
        size_t nwords = overlap + 2;
        uint8_t mem[8 * 5], pre[8 * 5];
        fill(mem, nwords * wb, prior);
        memcpy(pre, mem, nwords * wb);
        uint64_t got = 0;
        int f = GUARDED(got = do_rmw(W, mem, W + off, w, val));
        ev_begin("Bs");
        ev_str("mode", "iso");
        ev_int("word", W);
        ev_int("off", (long long)(W + off));
        ev_int("width", (long long)w);
        ev_word("val", val);
        ev_int("fault", f);
        put_words("pre", pre, W, nwords);
        put_words("post", mem, W, nwords);
        ev_word("got", got);
        ev_end();
    }
    /* tight */
    {
        gbuf g = gb_alloc(overlap * wb);
        fill(g.p, overlap * wb, prior);
        uint8_t pre[8 * 3];
        memcpy(pre, g.p, overlap * wb);
        uint64_t got = 0;
        int f = GUARDED(do_set(W, g.p, off, w, val));
        int gf = f ? 0 : GUARDED(got = do_get(W, g.p, off, w));
        ev_begin("Bs");
        ev_str("mode", "tight");
        ev_int("word", W);
        ev_int("off", (long long)off);
        ev_int("width", (long long)w);
        ev_word("val", val);
        ev_int("fault", f ? f : gf);
        put_words("pre", pre, W, overlap);
        put_words("post", g.p, W, f ? 0 : overlap);
        ev_word("got", got);
        ev_end();
        gb_free(&g);
    }
}

/* "far": the same isolation case inside a huge sparse stream, at absolute bit
 * offsets around 2^31 and 2^32 (a stream of more than 256 MiB): the property
 * says ANY bit offset.  The window [word before][overlap][word after] is
 * logged with the offset relative to the window, so the trace specification
 * sees an ordinary "iso" case (the semantics is translation invariant). */
static uint8_t *far_map;
static const size_t FAR_BYTES = (1ULL << 29) + (1ULL << 20); /* 2^32 bits + slack */
static void far_case(unsigned W, uint64_t basebit, size_t off, size_t w, uint64_t val) {
    if (!far_map) {
        far_map = mmap(NULL, FAR_BYTES, PROT_READ | PROT_WRITE,
                       MAP_PRIVATE | MAP_ANONYMOUS | MAP_NORESERVE, -1, 0);
        if (far_map == MAP_FAILED) {
            far_map = NULL;
            return;
        }
    }
    size_t wb = W / 8;
    size_t overlap = (off + w + W - 1) / W;
    size_t nwords = overlap + 2;
    /* basebit is a multiple of W: window starts one word before it */
    uint8_t *win = far_map + basebit / 8 - wb;
    uint8_t pre[8 * 5];
    fill(win, nwords * wb, 2);
    memcpy(pre, win, nwords * wb);
    uint64_t got = 0;
    int f = GUARDED(do_set(W, far_map, basebit + off, w, val));
    int gf = f ? 0 : GUARDED(got = do_get(W, far_map, basebit + off, w));
    ev_begin("Bs");
    ev_str("mode", "iso");
    ev_int("word", W);
    ev_int("off", (long long)(W + off));
    ev_int("width", (long long)w);
    ev_word("val", val);
    ev_int("fault", f ? f : gf);
    put_words("pre", pre, W, nwords);
    put_words("post", win, W, nwords);
    ev_word("got", got);
    ev_int("far", (long long)(basebit >> 20)); /* informational: absolute offset / 2^20 */
    ev_end();
}

static void signed_case(unsigned W, unsigned w, int64_t x) {
    int64_t st = 0, back = 0;
    switch (W) {
    case 64: st = bs_prep_64(x, w); break;
    case 32: st = bs_prep_32(x, w); break;
    case 16: st = bs_prep_16(x, w); break;
    default: st = bs_prep_8(x, w); break;
    }
    /* store through the stream so that truncation to w bits is real */
    uint64_t mem[3] = {0, 0, 0};
    bs_set_64(mem, 3, w, (uint64_t)st & (w >= 64 ? ~0ULL : ((1ULL << w) - 1)));
    int64_t loaded = (int64_t)bs_get_64(mem, 3, w);
    switch (W) {
    case 64: back = bs_rest_64(loaded, w); break;
    case 32: back = bs_rest_32(loaded, w); break;
    case 16: back = bs_rest_16(loaded, w); break;
    default: back = bs_rest_8(loaded, w); break;
    }
    ev_begin("BsSigned");
    ev_int("word", W);
    ev_int("width", w);
    ev_word("x", (uint64_t)x);
    ev_word("stored", (uint64_t)st);
    ev_word("restored", (uint64_t)back);
    ev_end();
}

/* unsigned-holder pattern, through a stream of the word type itself */
static void signed_case_word(unsigned W, unsigned w, int64_t x, size_t off) {
    int64_t back = 0;
    int f;
    switch (W) {
    case 64: f = GUARDED(back = bs_signed_rt_64(x, w, off)); break;
    case 32: f = GUARDED(back = bs_signed_rt_32(x, w, off)); break;
    case 16: f = GUARDED(back = bs_signed_rt_16(x, w, off)); break;
    default: f = GUARDED(back = bs_signed_rt_8(x, w, off)); break;
    }
    ev_begin("BsSigned");
    ev_int("word", W);
    ev_int("width", w);
    ev_str("holder", "word");
    ev_word("x", (uint64_t)x);
    ev_word("stored", 0);
    ev_word("restored", f ? ~(uint64_t)x : (uint64_t)back);
    ev_end();
}

int main(int argc, char **argv) {
    if (argc < 5) {
        fprintf(stderr, "usage: %s shard nshards dense out\n", argv[0]);
        return 2;
    }
    size_t shard = strtoul(argv[1], NULL, 10), nshards = strtoul(argv[2], NULL, 10);
    int dense = atoi(argv[3]);
    tr_open(argv[4]);
    guard_install();
    rng_seed(env_seed());
    static const unsigned Ws[4] = {64, 32, 16, 8};
    size_t idx = 0;
    for (int wi = 0; wi < 4; wi++) {
        unsigned W = Ws[wi];
        for (size_t off = 0; off < W; off++) {
            for (size_t w = 1; w <= W; w++) {
                if (!dense && W == 64 && (off % 7) && off != 63 && off != 1 &&
                    (w % 5) && w != 64 && w != 63) {
                    continue; /* quick: thin out the 64x64 grid */
                }
                uint64_t ones = w >= 64 ? ~0ULL : ((1ULL << w) - 1);
                uint64_t vals[5] = {0, ones, 0x5555555555555555ULL & ones,
                                    1ULL << (w - 1), rng_u64() & ones};
                for (int vi = 0; vi < 5; vi++) {
                    for (int prior = 0; prior < 3; prior++) {
                        uint64_t r1 = rng_u64(); /* keep the stream in step */
                        (void)r1;
                        if (idx++ % nshards != shard) {
                            continue;
                        }
                        one_case(W, off, w, vals[vi], prior);
                    }
                }
            }
        }
        if (W == 64 || W == 8) {
            static const uint64_t bases[] = {(1ULL << 31) - 64, 1ULL << 31, (1ULL << 31) + 192,
                                             3ULL << 30, (1ULL << 32) - 128, 1ULL << 32, (1ULL << 32) + 64};
            static const size_t widths[] = {1, 2, 7, 8, 9, 31, 32, 33, 63, 64};
            for (size_t b = 0; b < 7; b++) {
                for (size_t off = 0; off < W; off++) {
                    for (size_t k = 0; k < 10; k++) {
                        size_t w = widths[k];
                        if (w > W) {
                            continue;
                        }
                        uint64_t ones = w >= 64 ? ~0ULL : ((1ULL << w) - 1);
                        uint64_t r = rng_u64();
                        if (idx++ % nshards != shard) {
                            continue;
                        }
                        far_case(W, bases[b], off, w, (b + off + k) % 2 ? ones : (r & ones));
                    }
                }
            }
        }
        for (unsigned w = 2; w <= 64; w++) {
            int64_t lim = w >= 64 ? INT64_MAX : (((int64_t)1 << (w - 1)) - 1);
            int64_t xs[] = {0, 1, -1, lim, -lim, lim / 2, -(lim / 2) - (lim > 1),
                            (int64_t)(rng_u64() & (uint64_t)lim),
                            -(int64_t)(rng_u64() & (uint64_t)lim)};
            for (int i = 0; i < 9; i++) {
                if (idx++ % nshards != shard) {
                    continue;
                }
                if (W == 64) { /* helpers operate on the caller's 64-bit variable */
                    signed_case(W, w, xs[i]);
                }
                if (w <= W) {
                    signed_case_word(W, w, xs[i], (size_t)(i * 7 + w) % W);
                }
            }
        }
    }
    tr_close();
    return 0;
}
