/* Deterministic array recipes shared by the drivers; Selector.tla (Vals)
 * materialises the same sequences and computes their statistics exactly.
 *   lin / linrev : lo = 2^p1 + p2 (p1 < 0: lo = p2); step p3; last element += p4
 *   few          : p1 distinct values, gap p2, lo p3
 *   out          : p1 outliers at lo+p3, the rest cycle in lo..lo+p2; lo p4
 *   spread       : unsorted, unique: lo p2 + i*p1, first two swapped
 *   lindup       : lo p2 + i*p3 with element p1 (>= 1) repeating its predecessor */
#ifndef VERIF_RECIPES_H
#define VERIF_RECIPES_H
#include <stdint.h>
#include <string.h>
static uint64_t lo_of(long e, long d) {
    uint64_t lo = e >= 0 ? (e >= 64 ? 0 : 1ULL << e) : 0;
    return lo + (uint64_t)(int64_t)d;
}
/* returns 1 when shape names a recipe (and xs[0..n) is filled) */
static int recipe_shape(const char *shape, size_t n, long p1, long p2, long p3, long p4, uint64_t *xs) {
    if (!strcmp(shape, "lin") || !strcmp(shape, "linrev")) {
        uint64_t lo = lo_of(p1, p2);
        for (size_t i = 0; i < n; i++) {
            xs[i] = lo + (uint64_t)i * (uint64_t)p3;
        }
        xs[n - 1] += (uint64_t)p4;
        if (!strcmp(shape, "linrev")) {
            for (size_t i = 0; i < n / 2; i++) {
                uint64_t t = xs[i];
                xs[i] = xs[n - 1 - i];
                xs[n - 1 - i] = t;
            }
        }
        return 1;
    }
    if (!strcmp(shape, "few")) {
        for (size_t i = 0; i < n; i++) {
            xs[i] = (uint64_t)p3 + (uint64_t)(i % (size_t)p1) * (uint64_t)p2;
        }
        return 1;
    }
    if (!strcmp(shape, "out")) {
        uint64_t lo = (uint64_t)p4;
        for (size_t i = 0; i < n; i++) {
            xs[i] = lo + (uint64_t)(i % (size_t)(p2 + 1));
        }
        for (size_t i = 1; i <= (size_t)p1 && i < n; i++) {
            xs[i] = lo + (uint64_t)p3;
        }
        return 1;
    }
    if (!strcmp(shape, "lindup")) {
        for (size_t i = 0; i < n; i++) {
            xs[i] = (uint64_t)p2 + (uint64_t)i * (uint64_t)p3;
        }
        if (p1 >= 1 && (size_t)p1 < n) {
            xs[p1] = xs[p1 - 1];
        }
        return 1;
    }
    if (!strcmp(shape, "spread")) {
        for (size_t i = 0; i < n; i++) {
            xs[i] = (uint64_t)p2 + (uint64_t)i * (uint64_t)p1;
        }
        if (n > 1) {
            uint64_t t = xs[0];
            xs[0] = xs[1];
            xs[1] = t;
        }
        return 1;
    }
    return 0;
}
#endif
