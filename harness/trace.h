/* NDJSON event writer shared by all drivers.  One event per public call.
 * u64 values travel as 8 little-endian bytes ("word") for the byte-oriented
 * scalar spec, or as [hi16, mid24, lo24] limb triples for bulk arrays
 * (TLC integers are 32-bit; ndJsonDeserialize silently wraps wider numbers). */
#ifndef VERIF_TRACE_H
#define VERIF_TRACE_H
#include <inttypes.h>
#include <stdbool.h>
#include <stdint.h>
#include <stdio.h>
#include <stdlib.h>
#include <string.h>

#ifndef TR_TLS
#define TR_TLS /* the thread driver defines this as __thread: one trace file per thread */
#endif
static TR_TLS FILE *tr_f;
static TR_TLS int tr_first;
static TR_TLS unsigned long tr_count;

static void tr_died(int sig);
static inline void tr_open(const char *path) {
    tr_f = fopen(path, "w");
    if (!tr_f) {
        perror(path);
        exit(2);
    }
    static char buf[1 << 20];
    setvbuf(tr_f, buf, _IOFBF, sizeof(buf));
#ifdef VERIF_GUARD_H
    if (!g_late_crash) {
        g_late_crash = tr_died;
    }
#endif
}
static inline void tr_close(void) {
    if (tr_f) {
        fclose(tr_f);
    }
    tr_f = NULL;
}
/* The process is dying OUTSIDE an observed library call: glibc aborting in
 * the harness's own malloc()/free() because an earlier library call
 * corrupted the heap, or an assertion / crash inside a call the driver makes
 * unguarded.  The trace must survive and say so: a last "Died" event, which is
 * an action of no trace specification (tools/vlib.py validate() reports it as
 * the line the trace is rejected at). */
#include <signal.h>
#include <unistd.h>
static void tr_died(int sig) {
    if (tr_f) {
        fprintf(tr_f, "\n{\"e\":\"Died\",\"sig\":%d}\n", sig);
        fclose(tr_f);
        tr_f = NULL;
    }
    _exit(0);
}
/* drivers without guard.h */
static inline void tr_install_died(void) {
    signal(SIGABRT, tr_died);
    signal(SIGSEGV, tr_died);
    signal(SIGBUS, tr_died);
    signal(SIGFPE, tr_died);
    signal(SIGILL, tr_died);
}
static inline void ev_begin(const char *kind) {
    fprintf(tr_f, "{\"e\":\"%s\"", kind);
    tr_first = 0;
}
static inline void ev_end(void) {
    fputs("}\n", tr_f);
    tr_count++;
}
static inline void ev_flush(void) {
    fflush(tr_f);
}
static inline void ev_str(const char *k, const char *v) {
    fprintf(tr_f, ",\"%s\":\"%s\"", k, v);
}
static inline void ev_int(const char *k, long long v) {
    fprintf(tr_f, ",\"%s\":%lld", k, v);
}
static inline void ev_bool(const char *k, bool v) {
    fprintf(tr_f, ",\"%s\":%s", k, v ? "true" : "false");
}
static inline void ev_bytes(const char *k, const uint8_t *p, size_t n) {
    fprintf(tr_f, ",\"%s\":[", k);
    for (size_t i = 0; i < n; i++) {
        fprintf(tr_f, i ? ",%u" : "%u", p[i]);
    }
    fputc(']', tr_f);
}
static inline void put_word(uint64_t v) {
    fprintf(tr_f, "[%u,%u,%u,%u,%u,%u,%u,%u]", (unsigned)(v & 255),
            (unsigned)((v >> 8) & 255), (unsigned)((v >> 16) & 255),
            (unsigned)((v >> 24) & 255), (unsigned)((v >> 32) & 255),
            (unsigned)((v >> 40) & 255), (unsigned)((v >> 48) & 255),
            (unsigned)((v >> 56) & 255));
}
static inline void ev_word(const char *k, uint64_t v) {
    fprintf(tr_f, ",\"%s\":", k);
    put_word(v);
}
static inline void ev_words(const char *k, const uint64_t *v, size_t n) {
    fprintf(tr_f, ",\"%s\":[", k);
    for (size_t i = 0; i < n; i++) {
        if (i) {
            fputc(',', tr_f);
        }
        put_word(v[i]);
    }
    fputc(']', tr_f);
}
/* limb triple, most significant first, so sequence comparison is numeric */
static inline void put_limbs(uint64_t v) {
    fprintf(tr_f, "[%u,%u,%u]", (unsigned)(v >> 48),
            (unsigned)((v >> 24) & 0xFFFFFF), (unsigned)(v & 0xFFFFFF));
}
static inline void ev_limbs(const char *k, uint64_t v) {
    fprintf(tr_f, ",\"%s\":", k);
    put_limbs(v);
}
static inline void ev_arr(const char *k, const uint64_t *v, size_t n) {
    fprintf(tr_f, ",\"%s\":[", k);
    for (size_t i = 0; i < n; i++) {
        if (i) {
            fputc(',', tr_f);
        }
        put_limbs(v[i]);
    }
    fputc(']', tr_f);
}
static inline void ev_arr32(const char *k, const uint32_t *v, size_t n) {
    fprintf(tr_f, ",\"%s\":[", k);
    for (size_t i = 0; i < n; i++) {
        if (i) {
            fputc(',', tr_f);
        }
        put_limbs(v[i]);
    }
    fputc(']', tr_f);
}

/* deterministic PRNG (splitmix64) seeded from VERIF_SEED */
static uint64_t rng_s;
static inline void rng_seed(uint64_t s) {
    rng_s = s * 0x9E3779B97F4A7C15ULL + 0x1234567ULL;
}
static inline uint64_t rng_u64(void) {
    uint64_t z = (rng_s += 0x9E3779B97F4A7C15ULL);
    z = (z ^ (z >> 30)) * 0xBF58476D1CE4E5B9ULL;
    z = (z ^ (z >> 27)) * 0x94D049BB133111EBULL;
    return z ^ (z >> 31);
}
/* uniformly distributed bit length 0..64 */
static inline uint64_t rng_anywidth(void) {
    unsigned bits = (unsigned)(rng_u64() % 65);
    if (bits == 0) {
        return 0;
    }
    uint64_t v = rng_u64();
    if (bits < 64) {
        v &= (1ULL << bits) - 1;
        v |= 1ULL << (bits - 1);
    } else {
        v |= 1ULL << 63;
    }
    return v;
}
static inline uint64_t env_seed(void) {
    const char *s = getenv("VERIF_SEED");
    return s ? strtoull(s, NULL, 10) : 1;
}
#endif
