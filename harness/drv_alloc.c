/* Allocation-fault driver (C18): for every allocating API call, first count
 * its allocations A, then run it A times making the k-th allocation fail
 * (k = 1..A), then continue using any long-lived object.
 *
 *   drv_alloc <shard> <nshards> <out.ndjson>
 *
 * Part 1 (codecs): events "AF": outcome of the faulted call, whether its
 *   output (if it reported success) decodes to the input, live-block balance.
 * Part 2 (bitmap): "Bm" events of drv_bitmap.c with the fault plan in "fk";
 *   a prefix of operations builds the state, one operation runs with the
 *   fault, then the object is observed and used again. */
#define _GNU_SOURCE
#define DRV_BITMAP_NO_MAIN 1
#include "drv_bitmap.c"

#include "varintAdaptive.h"
#include "varintDict.h"
#include "varintFloat.h"
#include "varintPFOR.h"

/* ------------------------------------------------------------ part 1 */
/* the fault plan applies to the call under test only; everything else the
 * scenario does (set-up, verification, follow-up use) runs fenced and guarded
 * but without injection */
static long g_plan;   /* k: which allocation of the call under test fails (0 = none) */
static long g_A;      /* allocations performed by the call under test */
static long g_inj;    /* injections that actually happened */
#define FAULTED(stmt)                                                          \
    (shim_reset(), shim_fail_at = g_plan, g_rc2 = GUARDED(stmt), shim_fail_at = 0, \
     g_A = shim_calls, g_inj = shim_failed, g_rc2)
#define SAFE(stmt) (shim_fail_at = 0, GUARDED(stmt))
static int g_rc2;

#include "recipes.h"
typedef struct scen {
    const char *name;
    size_t n;
    uint64_t xs[5200];
    char namebuf[96];
} scen;

static void mk(scen *s, const char *name, size_t n, int shape) {
    s->name = name;
    s->n = n;
    for (size_t i = 0; i < n; i++) {
        switch (shape) {
        case 0: s->xs[i] = 1000 + (i % 7); break;                    /* repetitive */
        case 1: s->xs[i] = 50000 + i * 3; break;                     /* ascending */
        case 2: s->xs[i] = 100 + (i * 37) % 200 + (i % 50 == 49 ? 1ULL << 40 : 0); break; /* outliers */
        case 3: s->xs[i] = i * 2; break;                             /* bitmap range, ascending unique */
        default: s->xs[i] = rng_u64(); break;
        }
    }
}

/* follow-up use of a dictionary (guarded: a corrupted object must show up as
 * a fault event, not kill the driver) */
static int dict_roundtrip(varintDict *d, const uint64_t *xs, size_t n, uint8_t *buf, uint64_t *ys) {
    size_t w = varintDictEncodeWithDict(buf, d, xs, n);
    size_t rr = w ? varintDictDecodeInto(buf, w, ys, n) : 0;
    return rr == n && !memcmp(ys, xs, n * 8);
}
static int dict_rebuild_roundtrip(varintDict *d, const uint64_t *xs, size_t n, uint8_t *buf, uint64_t *ys) {
    /* first a smaller build, then the full one: exercises the capacity bookkeeping */
    if (varintDictBuild(d, xs, n > 20 ? 20 : n) != 0) {
        return 0;
    }
    if (varintDictBuild(d, xs, n) != 0) {
        return 0;
    }
    return dict_roundtrip(d, xs, n, buf, ys);
}

typedef struct outcome {
    int f;          /* fault code */
    int ok;         /* call reported success */
    int same;       /* 1: output decodes to input, 0: differs, -1: n/a */
    long val;       /* scalar result */
    long adv;       /* encoders: bytes the sizing function advertised for this input (-1: n/a) */
    long written;   /* encoders: bytes the call reports as written */
    long foff;      /* encoders: offset of a fault relative to the destination */
} outcome;

/* Encoders write into a destination of exactly the advertised size that ends
 * at an inaccessible page: the caller sized the buffer before the call, from
 * the sizing function, and the allocation failure happens inside the call. */
static gbuf g_tight;
static uint8_t *tight_dst(outcome *o, size_t adv) {
    g_tight = gb_alloc(adv);
    memset(g_tight.p, 0x6B, adv);
    o->adv = (long)adv;
    return g_tight.p;
}
static void tight_done(outcome *o, size_t w, uint8_t *copy_to) {
    o->written = o->f ? -1 : (long)w;
    o->foff = o->f == 1 ? gb_fault_off(&g_tight) : -1000000;
    if (!o->f && w && (long)w <= o->adv) {
        memcpy(copy_to, g_tight.p, w);
    }
    gb_free(&g_tight);
}

/* returns outcome of api on scenario; decoding of produced output is done
 * with the shim off (no injection) */
static outcome run_api(const char *api, const scen *s) {
    outcome o = {0, 0, -1, 0, -1, -1, -1000000};
    static uint8_t buf[1 << 18], buf2[1 << 18];
    static uint64_t ys[5200];
    size_t n = s->n;
    memset(ys, 0x77, sizeof(ys));
    if (!strcmp(api, "DictEncode")) {
        size_t w = 0;
        uint8_t *dst = tight_dst(&o, varintDictEncodedSize(s->xs, n));
        o.f = FAULTED(w = varintDictEncode(dst, s->xs, n));
        tight_done(&o, w, buf);
        o.ok = w > 0;
        o.val = (long)w;
        if (o.ok && !o.f && (long)w <= o.adv) {
            size_t r = varintDictDecodeInto(buf, w, ys, n);
            o.same = r == n && !memcmp(ys, s->xs, n * 8);
        }
    } else if (!strcmp(api, "DictEncodedSize")) {
        size_t w = 0;
        o.f = FAULTED(w = varintDictEncodedSize(s->xs, n));
        o.ok = w > 0;
        o.val = (long)w;
        if (o.ok && !o.f) {
            o.same = w == varintDictEncode(buf, s->xs, n);
        }
    } else if (!strcmp(api, "DictGetStats")) {
        varintDictStats st;
        memset(&st, 0, sizeof(st));
        int r = -1;
        o.f = FAULTED(r = varintDictGetStats(s->xs, n, &st));
        o.ok = r == 0;
        if (o.ok && !o.f) {
            o.same = st.totalCount == n && st.totalBytes == varintDictEncode(buf, s->xs, n);
        }
    } else if (!strcmp(api, "DictBuild")) {
        varintDict *d = NULL;
        (void)SAFE(d = varintDictCreate()); /* created outside the fault window */
        int r = -1;
        o.f = FAULTED(r = varintDictBuild(d, s->xs, n));
        o.ok = r == 0;
        if (!o.f) {
            int good = 0;
            if (o.ok) {
                int ff = SAFE(good = dict_roundtrip(d, s->xs, n, buf, ys));
                o.same = !ff && good;
            } else {
                /* object must remain usable: build again without fault */
                int ff = SAFE(good = dict_rebuild_roundtrip(d, s->xs, n, buf, ys));
                o.same = (!ff && good) ? -1 : 0; /* 0 = unusable afterwards */
                if (ff) {
                    o.f = ff; /* the object crashed its next user */
                }
            }
            if (!o.f) {
                (void)SAFE(varintDictFree(d));
            }
        }
    } else if (!strcmp(api, "DictCreate")) {
        varintDict *d = NULL;
        o.f = FAULTED(d = varintDictCreate());
        o.ok = d != NULL;
        if (!o.f && d) {
            int good = 0;
            int ff = SAFE(good = dict_rebuild_roundtrip(d, s->xs, n, buf, ys));
            o.same = !ff && good;
            if (!ff) {
                (void)SAFE(varintDictFree(d));
            }
        }
    } else if (!strcmp(api, "DictDecode") || !strcmp(api, "DictDecodeInto")) {
        size_t w = varintDictEncode(buf, s->xs, n);
        if (!strcmp(api, "DictDecode")) {
            size_t cnt = 0;
            uint64_t *out = NULL;
            o.f = FAULTED(out = varintDictDecode(buf, w, &cnt));
            o.ok = out != NULL;
            if (!o.f && out) {
                o.same = cnt == n && !memcmp(out, s->xs, n * 8);
                free(out);
            }
        } else {
            size_t r = 0;
            gbuf out = gb_alloc(n * 8); /* an output array of exactly n elements */
            o.f = FAULTED(r = varintDictDecodeInto(buf, w, (uint64_t *)out.p, n));
            o.ok = r > 0;
            if (o.ok && !o.f) {
                o.same = r == n && !memcmp(out.p, s->xs, n * 8);
            }
            gb_free(&out);
        }
    } else if (!strcmp(api, "PFORComputeThreshold")) {
        varintPFORMeta m, ref;
        memset(&m, 0x5A, sizeof(m));
        varintPFORComputeThreshold(s->xs, (uint32_t)n, 95, &ref);
        varintWidth w = 0;
        o.f = FAULTED(w = varintPFORComputeThreshold(s->xs, (uint32_t)n, 95, &m));
        /* the only failure indication is the zeroed metadata (count 0) */
        o.ok = m.count == (uint32_t)n;
        o.val = w;
        if (!o.f && o.ok) {
            o.same = m.count == ref.count && m.width == ref.width && m.min == ref.min &&
                     m.exceptionCount == ref.exceptionCount;
        }
    } else if (!strcmp(api, "PFOREncode")) {
        varintPFORMeta m;
        memset(&m, 0, sizeof(m));
        size_t w = 0;
        varintPFORMeta sm;
        memset(&sm, 0, sizeof(sm));
        varintPFORComputeThreshold(s->xs, (uint32_t)n, 95, &sm);
        uint8_t *dst = tight_dst(&o, varintPFORSize(&sm));
        o.f = FAULTED(w = varintPFOREncode(dst, s->xs, (uint32_t)n, 95, &m));
        tight_done(&o, w, buf);
        o.ok = w > 0;
        o.val = (long)w;
        if (o.ok && !o.f && (long)w <= o.adv) {
            varintPFORMeta dm;
            memset(&dm, 0, sizeof(dm));
            int df = GUARDED(varintPFORDecode(buf, ys, &dm));
            o.same = !df && dm.count == n && !memcmp(ys, s->xs, n * 8);
            /* "fully correct" means correct through EVERY reader of the
             * format, the random-access one included */
            for (size_t i = 0; o.same && i < n; i++) {
                uint64_t v = 0;
                varintPFORMeta gm;
                memset(&gm, 0, sizeof(gm));
                int gf = GUARDED(varintPFORReadMeta(buf, &gm));
                gf = gf ? gf : GUARDED(v = varintPFORGetAt(buf, (uint32_t)i, &gm));
                if (gf || v != s->xs[i]) {
                    o.same = 0;
                }
            }
        }
    } else if (!strcmp(api, "FloatEncode") || !strcmp(api, "FloatDecode")) {
        static double dx[600], dy[600];
        for (size_t i = 0; i < n; i++) {
            dx[i] = (double)(int64_t)s->xs[i] * 0.37 + (double)i;
        }
        if (!strcmp(api, "FloatEncode")) {
            size_t w = 0;
            uint8_t *dst = tight_dst(&o, varintFloatMaxEncodedSize(n, VARINT_FLOAT_PRECISION_FULL));
            o.f = FAULTED(w = varintFloatEncode(dst, dx, n, VARINT_FLOAT_PRECISION_FULL,
                                                VARINT_FLOAT_MODE_DELTA_EXPONENT));
            tight_done(&o, w, buf);
            o.ok = w > 0;
            if (o.ok && !o.f && (long)w <= o.adv) {
                size_t r = varintFloatDecode(buf, n, dy);
                o.same = r == w && !memcmp(dx, dy, n * 8);
            }
        } else {
            size_t w = varintFloatEncode(buf, dx, n, VARINT_FLOAT_PRECISION_FULL,
                                         VARINT_FLOAT_MODE_COMMON_EXPONENT);
            size_t r = 0;
            gbuf out = gb_alloc(n * 8); /* an output array of exactly n elements */
            memset(out.p, 0x11, n * 8);
            o.f = FAULTED(r = varintFloatDecode(buf, n, (double *)out.p));
            o.ok = r > 0;
            if (o.ok && !o.f) {
                o.same = r == w && !memcmp(dx, out.p, n * 8);
            }
            gb_free(&out);
        }
    } else if (!strcmp(api, "AdaptiveCountUnique")) {
        size_t u = 0;
        size_t ref = varintAdaptiveCountUnique(s->xs, n);
        o.f = FAULTED(u = varintAdaptiveCountUnique(s->xs, n));
        o.ok = 1; /* documented: conservative estimate = count on failure */
        o.same = u == ref || u == n;
    } else if (!strncmp(api, "AdaptiveEncode", 14) || !strncmp(api, "AdaptiveDecode", 14)) {
        int type = api[14] == 'A' ? -1 : api[14] - '0';
        varintAdaptiveMeta m;
        memset(&m, 0, sizeof(m));
        if (!strncmp(api, "AdaptiveEncode", 14)) {
            size_t w = 0;
            uint8_t *dst = tight_dst(&o, varintAdaptiveMaxSize(n));
            if (type < 0) {
                o.f = FAULTED(w = varintAdaptiveEncode(dst, s->xs, n, &m));
            } else {
                o.f = FAULTED(w = varintAdaptiveEncodeWith(dst, s->xs, n,
                                                           (varintAdaptiveEncodingType)type, &m));
            }
            tight_done(&o, w, buf);
            o.ok = w > 0;
            o.val = (long)w;
            if (o.ok && !o.f && (long)w <= o.adv) {
                size_t r = 0;
                int df = GUARDED(r = varintAdaptiveDecode(buf, ys, n, NULL));
                o.same = !df && r == n && !memcmp(ys, s->xs, n * 8);
            }
        } else {
            size_t w = type < 0 ? varintAdaptiveEncode(buf2, s->xs, n, &m)
                                : varintAdaptiveEncodeWith(buf2, s->xs, n,
                                                           (varintAdaptiveEncodingType)type, &m);
            size_t r = 0;
            (void)w;
            gbuf out = gb_alloc(n * 8); /* an output array of exactly n elements */
            o.f = FAULTED(r = varintAdaptiveDecode(buf2, (uint64_t *)out.p, n, NULL));
            o.ok = r > 0;
            if (o.ok && !o.f) {
                o.same = r == n && !memcmp(out.p, s->xs, n * 8);
            }
            gb_free(&out);
        }
    } else {
        fprintf(stderr, "unknown api %s\n", api);
        exit(2);
    }
    return o;
}

static void codec_faults(const char *api, const scen *s) {
    /* pass 0 counts the allocations A of the call under test, pass k injects */
    long A = 0;
    for (long k = 0; k <= A; k++) {
        shim_forget_all();
        g_plan = k;
        g_A = 0;
        g_inj = 0;
        shim_always = 1; /* every allocation of the scenario is fenced and tracked */
        outcome o = run_api(api, s);
        shim_always = 0;
        if (k == 0) {
            A = g_A;
        }
        ev_begin("AF");
        ev_str("api", api);
        ev_str("scen", s->name);
        ev_int("fk", k);
        ev_int("nalloc", A);
        ev_int("fault", o.f);
        ev_int("ok", o.ok);
        ev_int("same", o.same);
        ev_int("leak", o.f ? 0 : shim_live());
        ev_int("injected", g_inj);
        ev_int("adv", o.adv);
        ev_int("written", o.written);
        ev_int("foff", o.foff);
        ev_end();
    }
    g_plan = 0;
}

/* ------------------------------------------------------------ part 2 */
typedef struct bstep {
    const char *op;
    long a, b;
    const char *k;
} bstep;

/* prefix (no fault) -> faulted op -> follow-up ops (no fault) */
static void bitmap_faults(const char *name, const bstep *prefix, int np, bstep target,
                          const bstep *after, int na) {
    /* pass 0 counts allocations of the target op, pass k injects */
    long A = 0;
    for (long k = 0; k <= A; k++) {
        ev_begin("BmNew");
        ev_str("scen", name);
        ev_end();
        shim_forget_all();
        varintBitmap *vb = varintBitmapCreate();
        g_fault_k = 0;
        shim_fail_at = 0;
        for (int i = 0; i < np && vb; i++) {
            shim_reset();
            vb = apply(vb, prefix[i].op, prefix[i].a, prefix[i].b, prefix[i].k);
        }
        if (!vb) {
            return;
        }
        shim_reset();
        g_fault_k = k;
        shim_fail_at = k;
        vb = apply(vb, target.op, target.a, target.b, target.k);
        if (k == 0) {
            A = shim_calls;
        }
        shim_fail_at = 0;
        g_fault_k = 0;
        for (int i = 0; i < na && vb; i++) {
            shim_reset();
            vb = apply(vb, after[i].op, after[i].a, after[i].b, after[i].k);
        }
        if (vb) {
            varintBitmapFree(vb);
        }
        ev_begin("BmEnd");
        ev_int("live", shim_live());
        ev_int("fk", k);
        ev_end();
    }
}

int main(int argc, char **argv) {
    if (argc < 4) {
        fprintf(stderr, "usage: %s shard nshards out [recipes]\n", argv[0]);
        return 2;
    }
    size_t shard = strtoul(argv[1], NULL, 10), nshards = strtoul(argv[2], NULL, 10);
    tr_open(argv[3]);
    guard_install();
    rng_seed(env_seed());
    shim_fence = 1; /* overruns of library-owned blocks fault immediately */
    /* operands / lists used by the bitmap steps (same as BitmapSet!Operands) */
    strcpy(K[0].name, "K1"); K[0].niv = 1; K[0].iv[0][0] = 0; K[0].iv[0][1] = 5000;
    strcpy(K[1].name, "K2"); K[1].niv = 2; K[1].iv[0][0] = 4000; K[1].iv[0][1] = 4200;
    K[1].iv[1][0] = 65535; K[1].iv[1][1] = 65536;
    strcpy(K[2].name, "K4"); K[2].niv = 1; K[2].iv[0][0] = 1; K[2].iv[0][1] = 4097;
    strcpy(K[3].name, "KA"); K[3].niv = 3; K[3].iv[0][0] = 5; K[3].iv[0][1] = 12;
    K[3].iv[1][0] = 9998; K[3].iv[1][1] = 10003; K[3].iv[2][0] = 19998; K[3].iv[2][1] = 20002;
    strcpy(K[4].name, "KB"); K[4].niv = 2; K[4].iv[0][0] = 0; K[4].iv[0][1] = 5000;
    K[4].iv[1][0] = 9000; K[4].iv[1][1] = 11000;
    strcpy(K[5].name, "KRr"); K[5].niv = 1; K[5].iv[0][0] = 9000; K[5].iv[0][1] = 16000;
    nK = 6;
    strcpy(L[0].name, "L3"); L[0].n = 40;
    for (int i = 0; i < 40; i++) L[0].v[i] = (uint16_t)(4091 + i);
    nL = 1;

    static scen S[5];
    mk(&S[0], "repetitive300", 300, 0);
    mk(&S[1], "ascending300", 300, 1);
    mk(&S[2], "outliers300", 300, 2);
    mk(&S[3], "bitmaprange500", 500, 3);
    mk(&S[4], "random40", 40, 4);
    static const char *apis[] = {"DictCreate", "DictBuild", "DictEncode", "DictEncodedSize", "DictGetStats",
                                 "DictDecode", "DictDecodeInto", "PFORComputeThreshold", "PFOREncode",
                                 "FloatEncode", "FloatDecode", "AdaptiveCountUnique", "AdaptiveEncodeA",
                                 "AdaptiveEncode0", "AdaptiveEncode1", "AdaptiveEncode2", "AdaptiveEncode3",
                                 "AdaptiveEncode4", "AdaptiveEncode5", "AdaptiveDecodeA", "AdaptiveDecode0",
                                 "AdaptiveDecode1", "AdaptiveDecode2", "AdaptiveDecode3", "AdaptiveDecode4",
                                 "AdaptiveDecode5"};
    size_t idx = 0;
    /* VERIF_ALLOC_ENC: only the encoders (the size clauses of C03 under allocation failures) */
    int enc_only = getenv("VERIF_ALLOC_ENC") != NULL;
    for (size_t a = 0; a < sizeof(apis) / sizeof(apis[0]); a++) {
        if (enc_only && (!strstr(apis[a], "Encode") || strstr(apis[a], "EncodedSize"))) {
            continue;
        }
        for (int s = 0; s < 5; s++) {
            /* forced BITMAP only on its documented domain */
            if ((!strcmp(apis[a], "AdaptiveEncode4") || !strcmp(apis[a], "AdaptiveDecode4")) && s != 3) {
                continue;
            }
            if (idx++ % nshards != shard) {
                continue;
            }
            codec_faults(apis[a], &S[s]);
        }
    }
    /* every threshold recipe of the adaptive selection tree (Selector.tla):
     * under an allocation failure the analysis falls back to conservative
     * estimates, which moves an input across the decision boundaries */
    if (argc > 4) {
        FILE *rf = fopen(argv[4], "r");
        char line[256];
        static scen R;
        while (rf && fgets(line, sizeof(line), rf)) {
            char shape[32];
            size_t n;
            long p1, p2, p3, p4;
            if (sscanf(line, "R %31s %zu %ld %ld %ld %ld", shape, &n, &p1, &p2, &p3, &p4) != 6 || n > 5000 || n < 1) {
                continue;
            }
            if (idx++ % nshards != shard) {
                continue;
            }
            if (!recipe_shape(shape, n, p1, p2, p3, p4, R.xs)) {
                continue;
            }
            snprintf(R.namebuf, sizeof(R.namebuf), "%s/%zu/%ld/%ld/%ld/%ld", shape, n, p1, p2, p3, p4);
            R.name = R.namebuf;
            R.n = n;
            codec_faults("AdaptiveEncodeA", &R);
            if (enc_only) {
                continue;
            }
            codec_faults("AdaptiveDecodeA", &R);
            codec_faults("AdaptiveCountUnique", &R);
        }
        if (rf) {
            fclose(rf);
        }
    }
    /* bitmap scenarios: state-building prefix, faulted op, follow-up */
    static const bstep fill4096[] = {{"AddRange", 0, 4096, ""}};
    static const bstep fill4097[] = {{"AddRange", 0, 4096, ""}, {"Add", 5000, 0, ""}};
    static const bstep dense4096[] = {{"AddRange", 0, 4096, ""}, {"Add", 5000, 0, ""}, {"Remove", 5000, 0, ""}};
    static const bstep fill4095[] = {{"AddRange", 0, 4095, ""}};
    static const bstep runs[] = {{"AddRange", 10000, 20000, ""}};
    static const bstep few[] = {{"Add", 7, 0, ""}, {"Add", 9, 0, ""}};
    static const bstep sixteen[] = {{"AddRange", 100, 116, ""}};
    /* states in which Optimize has something to do: an array with much slack, a dense container that became
     * sparse, a run container, a cleared dense container */
    static const bstep slack[] = {{"AddRange", 0, 300, ""}, {"RemoveRange", 5, 300, ""}};
    static const bstep sparsebm[] = {{"AddRange", 0, 4096, ""}, {"Add", 5000, 0, ""}, {"RemoveRange", 10, 4090, ""}};
    static const bstep clearedbm[] = {{"AddRange", 0, 4096, ""}, {"Add", 5000, 0, ""}, {"Clear", 0, 0, ""},
                                      {"Add", 65535, 0, ""}, {"Add", 3, 0, ""}};
    /* a small run container (only a foreign serialisation produces one): Add / Remove dissolve it into an array */
    static const bstep smallruns[] = {{"AddRange", 100, 116, ""}, {"Add", 300, 0, ""}, {"AsRuns", 0, 0, ""}};
    static const bstep after[] = {{"Add", 60000, 0, ""}, {"Remove", 7, 0, ""}, {"AddRange", 200, 210, ""}};
    struct {
        const char *name;
        const bstep *pre;
        int np;
        bstep t;
    } B[] = {
        {"array->bitmap", fill4096, 1, {"Add", 4096, 0, ""}},
        {"bitmap->array", fill4097, 2, {"Remove", 5000, 0, ""}},
        /* both sides of each conversion threshold, in both directions */
        {"dense 4096 -> 4095", dense4096, 3, {"Remove", 7, 0, ""}},
        {"dense 4096 remove absent", dense4096, 3, {"Remove", 6000, 0, ""}},
        {"dense 4096 -> 4097", dense4096, 3, {"Add", 6000, 0, ""}},
        {"array 4095 -> 4096", fill4095, 1, {"Add", 6000, 0, ""}},
        {"array 4096 -> 4095", fill4096, 1, {"Remove", 7, 0, ""}},
        {"dense 4097 -> 4096", fill4097, 2, {"Remove", 7, 0, ""}},
        {"array grow", sixteen, 1, {"Add", 50, 0, ""}},
        {"runs->array/bitmap add", runs, 1, {"Add", 5, 0, ""}},
        {"runs remove", runs, 1, {"Remove", 15000, 0, ""}},
        {"long range on empty", few, 0, {"AddRange", 0, 5000, ""}},
        {"long range on non-empty", few, 2, {"AddRange", 0, 5000, ""}},
        {"short range", few, 2, {"AddRange", 100, 140, ""}},
        {"addmany", few, 2, {"AddMany", 0, 0, "L3"}},
        {"clone array", few, 2, {"Clone", 0, 0, ""}},
        {"clone bitmap", fill4097, 2, {"Clone", 0, 0, ""}},
        {"clone runs", runs, 1, {"Clone", 0, 0, ""}},
        {"codec array", few, 2, {"Codec", 0, 0, ""}},
        {"codec bitmap", fill4097, 2, {"Codec", 0, 0, ""}},
        {"codec runs", runs, 1, {"Codec", 0, 0, ""}},
        {"small runs -> array add", smallruns, 3, {"Add", 50, 0, ""}},
        {"small runs -> array remove", smallruns, 3, {"Remove", 105, 0, ""}},
        {"small runs clone", smallruns, 3, {"Clone", 0, 0, ""}},
        {"optimize slack array", slack, 2, {"Optimize", 0, 0, ""}},
        {"optimize sparse dense", sparsebm, 3, {"Optimize", 0, 0, ""}},
        {"optimize runs", runs, 1, {"Optimize", 0, 0, ""}},
        {"optimize cleared dense", clearedbm, 5, {"Optimize", 0, 0, ""}},
        {"codec cleared dense", clearedbm, 5, {"Codec", 0, 0, ""}},
        {"clone cleared dense", clearedbm, 5, {"Clone", 0, 0, ""}},
        {"or", few, 2, {"Or", 0, 0, "K2"}},
        {"or big", fill4096, 1, {"Or", 0, 0, "K1"}},
        {"and", fill4097, 2, {"And", 0, 0, "K2"}},
        {"and arrays", few, 2, {"And", 0, 0, "K2"}},
        {"xor", few, 2, {"Xor", 0, 0, "K2"}},
        {"xor big", fill4096, 1, {"Xor", 0, 0, "K4"}},
        {"andnot", fill4097, 2, {"AndNot", 0, 0, "K2"}},
        {"randnot", few, 2, {"RAndNot", 0, 0, "K1"}},
    };
    for (size_t b = 0; b < sizeof(B) / sizeof(B[0]) && !enc_only; b++) {
        if (idx++ % nshards != shard) {
            continue;
        }
        bitmap_faults(B[b].name, B[b].pre, B[b].np, B[b].t, after, 3);
    }
    /* set algebra: every operation x left operand of every container kind x
     * right operand of every container kind (all overlapping), both orders */
    {
        static const struct { const char *name; const bstep *pre; int np; } LEFT[] = {
            {"array", few, 2}, {"array4096", fill4096, 1}, {"dense", fill4097, 2}, {"runs", runs, 1}};
        static const char *OPS[] = {"Or", "And", "Xor", "AndNot", "ROr", "RAnd", "RXor", "RAndNot"};
        static const char *RIGHT[] = {"KA", "KB", "KRr"};
        static char names[4 * 8 * 3][48];
        int nn = 0;
        for (int l = 0; l < 4; l++) {
            for (int o = 0; o < 8; o++) {
                for (int r = 0; r < 3; r++) {
                    if (idx++ % nshards != shard) {
                        nn++;
                        continue;
                    }
                    snprintf(names[nn], sizeof(names[nn]), "%s %s %s", LEFT[l].name, OPS[o], RIGHT[r]);
                    bstep t = {OPS[o], 0, 0, RIGHT[r]};
                    bitmap_faults(names[nn], LEFT[l].pre, LEFT[l].np, t, after, 3);
                    nn++;
                }
            }
        }
    }
    tr_close();
    return 0;
}
