#ifndef PK_GEN_H
#define PK_GEN_H
#include <stddef.h>
#include <stdint.h>
typedef struct pkcfg {
    const char *name;
    int bits, slot;
    const char *variant;
    void (*set)(void *, uint32_t, uint64_t);
    uint64_t (*get)(const void *, uint32_t);
    void (*incr)(void *, uint32_t, int64_t);
    void (*half)(void *, uint32_t);
    void (*insert_sorted)(void *, uint32_t, uint64_t);
    long (*member)(const void *, uint32_t, uint64_t);
    int (*delete_member)(void *, uint32_t, uint64_t);
    uint32_t (*bsearch)(const void *, uint32_t, uint64_t);
    void (*insert)(void *, uint32_t, uint32_t, uint64_t);
    void (*del)(void *, uint32_t, uint32_t);
    /* ...Bytes variants: the element count is derived from the storage size */
    void (*insert_sorted_b)(void *, size_t, uint64_t);
    long (*member_b)(const void *, size_t, uint64_t);
    int (*delete_member_b)(void *, size_t, uint64_t);
    void (*insert_b)(void *, size_t, uint32_t, uint64_t);
    void (*del_b)(void *, size_t, uint32_t);
} pkcfg;
extern pkcfg PK[];
/* set wrappers read the element before and after the write inside one function */
extern volatile uint64_t pk_rmw_before;
extern uint64_t pk_rmw_after;
extern int NPK;
#endif
