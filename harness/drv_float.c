/* Float codec driver (C07).
 *
 *   drv_float <classes> <shard> <nshards> <nrandom> <out.ndjson>
 *
 * classes file: "FCLASS sign exp mant" / "FSPECIAL name" lines from
 * spec/FloatModel.tla.  Every class is encoded alone and inside mixed arrays,
 * in every precision x exponent mode; plus arrays whose exponents spread over
 * more than 255, automatic precision selection around each mode bound, and
 * seeded random arrays.  Doubles travel as their 8 little-endian bytes. */
#define _GNU_SOURCE
#include "varint.h"
#include "varintFloat.h"

#define VERIF_SHIM 1
#include "guard.h"
#include "trace.h"

static uint64_t dbits(double d) {
    uint64_t u;
    memcpy(&u, &d, 8);
    return u;
}
static double bitsd(uint64_t u) {
    double d;
    memcpy(&d, &u, 8);
    return d;
}

static uint64_t make(int sign, int exp, const char *mant) {
    uint64_t m = 0;
    uint64_t all = (1ULL << 52) - 1;
    if (!strcmp(mant, "zero")) {
        m = 0;
    } else if (!strcmp(mant, "one")) {
        m = 1;
    } else if (!strcmp(mant, "ones")) {
        m = all;
    } else if (!strncmp(mant, "carry", 5)) { /* top mb-1 fraction bits ones, next bit 1 */
        int mb = atoi(mant + 5);
        m = all & ~((1ULL << (52 - mb)) - 1); /* top mb fraction bits set ... */
        m |= rng_u64() & ((1ULL << (52 - mb)) - 1);
    } else if (!strncmp(mant, "exact", 5)) { /* exactly K fraction bits needed */
        int k = atoi(mant + 5);
        m = (rng_u64() & all) & ~((1ULL << (52 - k)) - 1);
        m |= 1ULL << (52 - k);
    } else if (!strncmp(mant, "half", 4)) { /* exactly half-way between two kept values */
        int mb = atoi(mant + 4);
        m = (rng_u64() & all) & ~((1ULL << (53 - mb)) - 1);
        m |= 1ULL << (52 - mb);
    } else {
        m = rng_u64() & all;
    }
    return ((uint64_t)sign << 63) | ((uint64_t)(exp + 1023) << 52) | m;
}
static uint64_t special(const char *name) {
    if (!strcmp(name, "pzero")) return 0;
    if (!strcmp(name, "nzero")) return 1ULL << 63;
    if (!strcmp(name, "pinf")) return 0x7FFULL << 52;
    if (!strcmp(name, "ninf")) return (0x7FFULL << 52) | (1ULL << 63);
    if (!strcmp(name, "qnan")) return (0x7FFULL << 52) | (1ULL << 51);
    if (!strcmp(name, "snan")) return (0x7FFULL << 52) | 1;
    if (!strcmp(name, "nanpayload")) return (0xFFFULL << 52) | 0x123456789ABCDULL;
    if (!strcmp(name, "minsub")) return 1;
    if (!strcmp(name, "maxsub")) return (1ULL << 52) - 1;
    return (1ULL << 63) | 0x8000000000000ULL; /* negsub */
}

static void roundtrip(const uint64_t *xb, size_t n, int prec, int mode, int autosel,
                      uint64_t reqbits) {
    double *xs = malloc(n * 8), *ys = malloc(n * 8);
    for (size_t i = 0; i < n; i++) {
        xs[i] = bitsd(xb[i]);
    }
    size_t bound = varintFloatMaxEncodedSize(n, (varintFloatPrecision)(autosel ? 0 : prec));
    gbuf dst = gb_alloc(bound);
    size_t written = 0, consumed = 0;
    varintFloatPrecision sel = (varintFloatPrecision)prec;
    int f;
    if (autosel) {
        f = GUARDED(written = varintFloatEncodeAuto(dst.p, xs, n, bitsd(reqbits),
                                                    (varintFloatEncodingMode)mode, &sel));
    } else {
        f = GUARDED(written = varintFloatEncode(dst.p, xs, n, (varintFloatPrecision)prec,
                                                (varintFloatEncodingMode)mode));
    }
    int df = 0;
    if (!f && written > 0 && written <= bound) {
        gbuf src = gb_alloc(written);
        memcpy(src.p, dst.p, written);
        gbuf out = gb_alloc(n * 8);
        memset(out.p, 0x3C, n * 8);
        df = GUARDED(consumed = varintFloatDecode(src.p, n, (double *)out.p));
        if (!df) {
            memcpy(ys, out.p, n * 8);
        }
        gb_free(&src);
        gb_free(&out);
    }
    ev_begin("F64");
    ev_int("prec", autosel ? (int)sel : prec);
    ev_int("mode", mode);
    ev_int("auto", autosel);
    ev_word("req", reqbits);
    ev_int("n", (long long)n);
    ev_int("fault", f);
    ev_int("dfault", df);
    ev_int("bound", (long long)bound);
    ev_int("written", f ? -1 : (long long)written);
    ev_int("consumed", (f || df) ? -1 : (long long)consumed);
    fprintf(tr_f, ",\"xs\":[");
    for (size_t i = 0; i < n; i++) {
        if (i) fputc(',', tr_f);
        put_word(xb[i]);
    }
    fprintf(tr_f, "],\"ys\":[");
    if (!f && !df && written > 0 && written <= bound) {
        for (size_t i = 0; i < n; i++) {
            if (i) fputc(',', tr_f);
            put_word(dbits(ys[i]));
        }
    }
    fputs("]", tr_f);
    ev_end();
    gb_free(&dst);
    free(xs);
    free(ys);
}

static uint64_t *cls;
static size_t ncls;
typedef struct span_cls {
    int base, span;
    char top[16], low[16];
} span_cls;
static span_cls *spans;
static size_t nspans;

/* "all arrays": one array long enough that the packed mantissa block of a
 * single call exceeds 2^32 bits (FULL precision: 52 bits x 82.6 million
 * values).  About 4 GB of memory and 20 s; thorough tier only.  Values are
 * normal doubles with distinct mantissas; only a verdict is logged. */
static void giant(int mode) {
    size_t n = 82595525 + 4096;
    double *v = malloc(n * 8), *back = malloc(n * 8);
    size_t bound = varintFloatMaxEncodedSize(n, VARINT_FLOAT_PRECISION_FULL);
    gbuf dst = gb_alloc(bound);
    if (!v || !back) {
        fprintf(stderr, "giant: out of memory\n");
        exit(2);
    }
    for (size_t i = 0; i < n; i++) {
        uint64_t b = ((uint64_t)(i & 1) << 63) | ((uint64_t)(1000 + i % 50) << 52) |
                     ((i * 0x9E3779B97F4A7C15ULL) & ((1ULL << 52) - 1));
        memcpy(&v[i], &b, 8);
    }
    memset(back, 0, n * 8);
    size_t w = 0, consumed = 0;
    g_guard_secs = 600;
    int f = GUARDED(w = varintFloatEncode(dst.p, v, n, VARINT_FLOAT_PRECISION_FULL, (varintFloatEncodingMode)mode));
    int df = 0;
    if (!f && w > 0 && w <= bound) {
        gbuf src = gb_alloc(w);
        memcpy(src.p, dst.p, w);
        df = GUARDED(consumed = varintFloatDecode(src.p, n, back));
        gb_free(&src);
    }
    long long mismatch = -1;
    for (size_t i = 0; !f && !df && i < n; i++) {
        if (memcmp(&v[i], &back[i], 8)) {
            mismatch = (long long)i;
            break;
        }
    }
    ev_begin("FGiant");
    ev_int("n", (long long)n);
    ev_int("mode", mode);
    ev_int("fault", f);
    ev_int("dfault", df);
    ev_int("bound", (long long)bound);
    ev_int("written", f ? -1 : (long long)w);
    ev_int("consumed", (long long)consumed);
    ev_int("mismatch", mismatch);
    ev_end();
    free(v);
    free(back);
    gb_free(&dst);
}

int main(int argc, char **argv) {
    if (argc == 4 && !strcmp(argv[1], "giant")) {
        tr_open(argv[3]);
        guard_install();
        giant(atoi(argv[2]));
        tr_close();
        return 0;
    }
    if (argc < 6) {
        fprintf(stderr, "usage: %s classes shard nshards nrandom out\n", argv[0]);
        return 2;
    }
    FILE *f = fopen(argv[1], "r");
    if (!f) {
        perror(argv[1]);
        return 2;
    }
    size_t shard = strtoul(argv[2], NULL, 10), nshards = strtoul(argv[3], NULL, 10);
    size_t nrandom = strtoul(argv[4], NULL, 10);
    tr_open(argv[5]);
    guard_install();
    rng_seed(env_seed());
    cls = malloc(4096 * 8);
    char line[256];
    while (fgets(line, sizeof(line), f)) {
        int s, e;
        char mant[32];
        span_cls sc;
        if (sscanf(line, "FSPAN %d %d %15s %15s", &sc.base, &sc.span, sc.top, sc.low) == 4) {
            spans = realloc(spans, (nspans + 1) * sizeof(*spans));
            spans[nspans++] = sc;
        } else if (sscanf(line, "FCLASS %d %d %31s", &s, &e, mant) == 3) {
            cls[ncls++] = make(s, e, mant);
        } else if (sscanf(line, "FSPECIAL %31s", mant) == 1) {
            cls[ncls++] = special(mant);
        }
    }
    fclose(f);
    size_t idx = 0;
    /* every class alone and with a neighbour, every precision x mode */
    for (size_t i = 0; i < ncls; i++) {
        for (int prec = 0; prec < 4; prec++) {
            for (int mode = 0; mode < 3; mode++) {
                uint64_t r = rng_u64();
                if (idx++ % nshards != shard) {
                    continue;
                }
                roundtrip(&cls[i], 1, prec, mode, 0, 0);
                uint64_t pair[3] = {cls[r % ncls], cls[i], cls[(r >> 20) % ncls]};
                roundtrip(pair, 3, prec, mode, 0, 0);
            }
        }
    }
    /* exponent spans on both sides of the COMMON_EXPONENT offset byte, top and
     * bottom elements with and without a rounding carry, both orders, with
     * and without elements in between */
    for (size_t i = 0; i < nspans; i++) {
        const span_cls *sc = &spans[i];
        for (int prec = 0; prec < 4; prec++) {
            for (int mode = 0; mode < 3; mode++) {
                uint64_t lo = make((int)(rng_u64() & 1), sc->base, sc->low);
                uint64_t hi = make((int)(rng_u64() & 1), sc->base + sc->span, sc->top);
                uint64_t mid = make(0, sc->base + 1 + (int)(rng_u64() % (unsigned)(sc->span - 1)), "rand");
                if (idx++ % nshards != shard) {
                    continue;
                }
                uint64_t a2[2] = {lo, hi}, b2[2] = {hi, lo}, a3[4] = {mid, hi, special("pinf"), lo};
                roundtrip(a2, 2, prec, mode, 0, 0);
                roundtrip(b2, 2, prec, mode, 0, 0);
                roundtrip(a3, 4, prec, mode, 0, 0);
            }
        }
    }
    /* mixed-magnitude arrays: exponent spread far beyond 255 */
    for (int rep = 0; rep < 40; rep++) {
        uint64_t arr[64];
        size_t n = 2 + (size_t)(rng_u64() % 60);
        for (size_t i = 0; i < n; i++) {
            int e = (int)(rng_u64() % 2045) - 1022;
            if (rng_u64() % 4 == 0) {
                e = (rng_u64() & 1) ? 1000 : -1000;
            }
            arr[i] = ((rng_u64() & 1) << 63) | ((uint64_t)(e + 1023) << 52) |
                     (rng_u64() & ((1ULL << 52) - 1));
            if (rng_u64() % 9 == 0) {
                arr[i] = cls[rng_u64() % ncls];
            }
        }
        for (int prec = 0; prec < 4; prec++) {
            for (int mode = 0; mode < 3; mode++) {
                if (idx++ % nshards != shard) {
                    continue;
                }
                roundtrip(arr, n, prec, mode, 0, 0);
            }
        }
    }
    /* automatic selection: requested errors on both sides of every mode bound */
    {
        double reqs[] = {1e-16, 1e-12, 9.9e-11, 1e-10, 1.1e-10, 1e-8, 1.19e-7, 1.1920928955078125e-7,
                         1.2e-7, 1e-6, 4.9e-4, 5e-4, 5.1e-4, 9.7e-4, 9.765625e-4, 9.8e-4, 0.01,
                         0.029, 0.03, 0.031, 0.06, 0.0625, 0.063, 0.1, 0.5, 0.999};
        /* mixed arrays, and arrays that are homogeneous in what their values
         * need (every value exactly representable with K fraction bits): a
         * data-dependent choice of precision is only as good as its proof */
        static const char *homog[] = {"mixed", "exact3", "exact4", "exact9", "exact10", "exact22",
                                      "exact23", "exact24", "carry23", "rand", "zero", "ones"};
        for (size_t k = 0; k < sizeof(reqs) / sizeof(reqs[0]); k++) {
            for (int mode = 0; mode < 3; mode++) {
                for (size_t h = 0; h < sizeof(homog) / sizeof(homog[0]); h++) {
                    uint64_t arr[8];
                    for (int i = 0; i < 8; i++) {
                        const char *cls_ = h ? homog[h] : (i % 2 ? "carry23" : "rand");
                        arr[i] = make((int)(rng_u64() & 1), (int)(rng_u64() % 40) - 20, cls_);
                    }
                    if (idx++ % nshards != shard) {
                        continue;
                    }
                    roundtrip(arr, 8, 0, mode, 1, dbits(reqs[k]));
                }
            }
        }
    }
    for (size_t k = 0; k < nrandom; k++) {
        uint64_t arr[32];
        size_t n = 1 + (size_t)(rng_u64() % 32);
        int base = (int)(rng_u64() % 2000) - 1000;
        int spread = (int)(rng_u64() % 3) == 0 ? 600 : 20;
        for (size_t i = 0; i < n; i++) {
            int e = base + (int)(rng_u64() % (unsigned)spread) - spread / 2;
            if (e < -1022) e = -1022;
            if (e > 1023) e = 1023;
            arr[i] = ((rng_u64() & 1) << 63) | ((uint64_t)(e + 1023) << 52) |
                     (rng_u64() & ((1ULL << 52) - 1));
        }
        int prec = (int)(rng_u64() % 4), mode = (int)(rng_u64() % 3);
        if (idx++ % nshards != shard) {
            continue;
        }
        roundtrip(arr, n, prec, mode, 0, 0);
    }
    tr_close();
    return 0;
}
