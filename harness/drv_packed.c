/* Packed-array driver (C09): every admissible instantiation of varintPacked.h
 * (generated table pk_gen.c), every element position of one full slot period,
 * value and prior-content classes; sorted-layer walks.
 *
 *   drv_packed <walks> <shard> <nshards> <out.ndjson>
 *
 * walks file: lines "PW op a ; op a ; ..." (from spec/PackedModel.tla). */
#define _GNU_SOURCE
#include "guard.h"
#include <sys/mman.h>
#include "pk_gen.h"
#include "trace.h"

static int gcd_(int a, int b) {
    return b ? gcd_(b, a % b) : a;
}
static void put_val4(const char *k, uint64_t v) {
    fprintf(tr_f, ",\"%s\":[%u,%u,%u,%u]", k, (unsigned)(v & 255),
            (unsigned)((v >> 8) & 255), (unsigned)((v >> 16) & 255),
            (unsigned)((v >> 24) & 255));
}
static void fill(uint8_t *mem, size_t n, int prior) {
    for (size_t i = 0; i < n; i++) {
        mem[i] = prior == 0 ? 0 : prior == 1 ? 0xFF : (uint8_t)rng_u64();
    }
}
static void head(const char *e, const pkcfg *c, const char *op, const char *mode) {
    ev_begin(e);
    ev_str("cfg", c->name);
    ev_int("bits", c->bits);
    ev_int("slot", c->slot);
    ev_str("op", op);
    ev_str("mode", mode);
}

/* one mutating call on element i of an n-element array */
static void cell(const pkcfg *c, const char *op, int tight, uint32_t n, uint32_t i,
                 uint64_t arg, int prior, uint64_t preset) {
    size_t sb = (size_t)c->slot / 8;
    size_t storage = ((size_t)n * (size_t)c->bits + (size_t)c->slot - 1) / (size_t)c->slot * sb;
    size_t base = tight ? 0 : sb;
    size_t total = storage + 2 * base;
    gbuf g = gb_alloc(total);
    fill(g.p, total, prior);
    uint8_t *arr = g.p + base;
    int f = 0;
    if (strcmp(op, "Set")) {
        /* Incr / Half start from a known element value, stored by the harness
         * itself bit by bit (flat LSB-first layout), not by the library: a
         * defect in Set must not turn into an ill-formed Incr scenario */
        for (int k = 0; k < c->bits; k++) {
            size_t g = (size_t)i * (size_t)c->bits + (size_t)k;
            uint8_t m = (uint8_t)(1u << (g % 8));
            if ((preset >> k) & 1) {
                arr[g / 8] |= m;
            } else {
                arr[g / 8] &= (uint8_t)~m;
            }
        }
    }
    uint8_t *pre = malloc(total);
    memcpy(pre, g.p, total);
    uint64_t got = 0;
    if (!strcmp(op, "Set")) {
        f = GUARDED(c->set(arr, i, arg));
    } else if (!strcmp(op, "Incr")) {
        f = GUARDED(c->incr(arr, i, (int64_t)arg));
    } else {
        f = GUARDED(c->half(arr, i));
    }
    int gf = f ? 0 : GUARDED(got = c->get(arr, i));
    {
        /* every other Set is verified by the read the wrapper made in the same function as the write */
        static unsigned rmw_ctr;
        if (!f && !gf && !strcmp(op, "Set") && (++rmw_ctr & 1)) {
            got = pk_rmw_after;
        }
    }
    head("Pk", c, op, tight ? "tight" : "iso");
    ev_int("base", (long long)base);
    ev_int("n", n);
    ev_int("i", i);
    put_val4("val", arg);
    ev_int("fault", f ? f : gf);
    ev_bytes("pre", pre, total);
    ev_bytes("post", g.p, f ? 0 : total);
    put_val4("got", got);
    ev_end();
    free(pre);
    gb_free(&g);
}

/* "far": the same cell case at element indices whose bit offset lies around
 * 2^31, 2^32 and 2^33 of a huge sparse array (the index type is uint32_t, so
 * arrays of hundreds of MiB are inside the API's domain).  Element I0 = I -
 * (I mod period) starts on a slot boundary, so the window [slot before]
 * [one period of elements][slot after] is logged as an ordinary n = period
 * array with i = I - I0 (the layout is translation invariant by periods). */
static uint8_t *pk_far_map;
static const size_t PK_FAR_BYTES = (1ULL << 30) + (1ULL << 22);
static void cell_far(const pkcfg *c, const char *op, uint32_t period, uint64_t I, uint64_t arg, uint64_t preset) {
    if (!pk_far_map) {
        pk_far_map = mmap(NULL, PK_FAR_BYTES, PROT_READ | PROT_WRITE,
                          MAP_PRIVATE | MAP_ANONYMOUS | MAP_NORESERVE, -1, 0);
        if (pk_far_map == MAP_FAILED) {
            pk_far_map = NULL;
            return;
        }
    }
    size_t sb = (size_t)c->slot / 8;
    uint64_t I0 = I - (I % period);
    uint32_t i = (uint32_t)(I - I0);
    size_t storage = ((size_t)period * (size_t)c->bits + (size_t)c->slot - 1) / (size_t)c->slot * sb;
    size_t total = storage + 2 * sb;
    uint64_t startbyte = I0 * (uint64_t)c->bits / 8; /* slot aligned */
    if (startbyte < sb || startbyte + total > PK_FAR_BYTES || I > 0xFFFFFFFFULL) {
        return;
    }
    uint8_t *win = pk_far_map + startbyte - sb;
    fill(win, total, 2);
    uint8_t *arr = win + sb;
    if (strcmp(op, "Set")) {
        for (int k = 0; k < c->bits; k++) {
            size_t g = (size_t)i * (size_t)c->bits + (size_t)k;
            uint8_t m = (uint8_t)(1u << (g % 8));
            if ((preset >> k) & 1) {
                arr[g / 8] |= m;
            } else {
                arr[g / 8] &= (uint8_t)~m;
            }
        }
    }
    uint8_t *pre = malloc(total);
    memcpy(pre, win, total);
    uint64_t got = 0;
    int f;
    if (!strcmp(op, "Set")) {
        f = GUARDED(c->set(pk_far_map, (uint32_t)I, arg));
    } else if (!strcmp(op, "Incr")) {
        f = GUARDED(c->incr(pk_far_map, (uint32_t)I, (int64_t)arg));
    } else {
        f = GUARDED(c->half(pk_far_map, (uint32_t)I));
    }
    int gf = f ? 0 : GUARDED(got = c->get(pk_far_map, (uint32_t)I));
    head("Pk", c, op, "iso");
    ev_int("base", (long long)sb);
    ev_int("n", period);
    ev_int("i", i);
    put_val4("val", arg);
    ev_int("fault", f ? f : gf);
    ev_bytes("pre", pre, total);
    ev_bytes("post", win, f ? 0 : total);
    put_val4("got", got);
    ev_int("far", (long long)(I >> 10));
    ev_end();
    free(pre);
}
static void far_cells(const pkcfg *c) {
    if (strstr(c->variant, "max")) {
        return; /* instantiated with PACK_MAX_ELEMENTS: large indices are outside its domain */
    }
    int g = gcd_(c->bits, c->slot);
    uint32_t period = (uint32_t)(c->slot / g);
    uint64_t ones = c->bits >= 32 ? 0xFFFFFFFFULL : ((1ULL << c->bits) - 1);
    static const uint64_t T[] = {1ULL << 31, 1ULL << 32, 1ULL << 33};
    for (int t = 0; t < 3; t++) {
        uint64_t Ib = T[t] / (uint64_t)c->bits;
        Ib -= Ib % period;
        /* the last element below the period that contains T, its first two
         * elements, one in the middle and its last one */
        uint64_t pick[5] = {Ib - 1, Ib, Ib + 1, Ib + period / 2, Ib + period - 1};
        for (int e = 0; e < 5; e++) {
            if (e > 0 && pick[e] == pick[e - 1]) {
                continue;
            }
            uint64_t cur = rng_u64() & (ones >> 1);
            cell_far(c, "Set", period, pick[e], (e % 2) ? ones : (rng_u64() & ones), 0);
            cell_far(c, "Incr", period, pick[e], ones - cur, cur);
            cell_far(c, "Half", period, pick[e], 0, rng_u64() & ones);
        }
    }
}

static void cells(const pkcfg *c) {
    int g = gcd_(c->bits, c->slot);
    uint32_t period = (uint32_t)(c->slot / g);
    uint32_t n = period < 3 ? period * 3 : period;
    uint64_t ones = c->bits >= 32 ? 0xFFFFFFFFULL : ((1ULL << c->bits) - 1);
    for (uint32_t i = 0; i < n; i++) {
        uint64_t vals[5] = {0, ones, 0x55555555ULL & ones, 1ULL << (c->bits - 1),
                            rng_u64() & ones};
        for (int vi = 0; vi < 5; vi++) {
            int prior = (int)((i + (uint32_t)vi) % 3);
            cell(c, "Set", 0, n, i, vals[vi], prior, 0);
            if (i == 0 || i == n - 1 || i == n / 2) {
                cell(c, "Set", 1, n, i, vals[vi], prior, 0);
            }
        }
        /* increment (non-negative, result in range) and halve */
        uint64_t cur = rng_u64() & (ones >> 1);
        uint64_t incs[3] = {0, 1, ones - cur};
        for (int k = 0; k < 3; k++) {
            cell(c, "Incr", i == n - 1, n, i, incs[k], 2, cur);
        }
        cell(c, "Half", i == n - 1, n, i, 0, 2, rng_u64() & ones);
        cell(c, "Half", 0, n, i, 0, 1, ones);
        cell(c, "Half", 0, n, i, 0, 0, 0);
    }
}

/* sorted layer: one step on an array of `len` elements held in `mem` */
#define SEQCAP 10
static uint32_t g_seqcap = SEQCAP; /* fill walks raise it to the configuration's declared maximum */
static void seq_step(const pkcfg *c, uint8_t *mem, size_t membytes, uint32_t *len,
                     const char *op, uint64_t a, uint64_t v) {
    static uint8_t pre[2048];
    memcpy(pre, mem, membytes);
    long ret = 0, ret2 = 0;
    uint32_t oldlen = *len;
    int f = 0;
    /* the ...Bytes variants derive the element count from a storage size:
     * usable whenever the smallest storage of `len` elements holds exactly
     * `len` whole elements; every other step goes through them */
    static unsigned long stepno;
    size_t lb = ((size_t)*len * (size_t)c->bits + 7) / 8;
    int viab = (++stepno % 2) && (lb * 8) / (size_t)c->bits == *len && !strstr(c->variant, "max");
    if (!strcmp(op, "InsertSorted")) {
        if (*len >= g_seqcap - 1) {
            return;
        }
        f = viab ? GUARDED(c->insert_sorted_b(mem, lb, v)) : GUARDED(c->insert_sorted(mem, *len, v));
        (*len)++;
    } else if (!strcmp(op, "DeleteMember")) {
        int r = 0;
        f = viab ? GUARDED(r = c->delete_member_b(mem, lb, v)) : GUARDED(r = c->delete_member(mem, *len, v));
        ret = r;
        if (r && *len > 0) {
            (*len)--; /* a "deleted" report on an empty array is logged, the length stays 0 */
        }
    } else if (!strcmp(op, "Member")) {
        f = viab ? GUARDED(ret = c->member_b(mem, lb, v)) : GUARDED(ret = c->member(mem, *len, v));
        uint32_t b = 0;
        int f2 = f ? 0 : GUARDED(b = c->bsearch(mem, *len, v));
        f = f ? f : f2;
        ret2 = b;
    } else if (!strcmp(op, "InsertAt")) {
        if (*len >= SEQCAP - 1 || a > *len) {
            return;
        }
        f = viab ? GUARDED(c->insert_b(mem, lb, (uint32_t)a, v)) : GUARDED(c->insert(mem, *len, (uint32_t)a, v));
        (*len)++;
    } else if (!strcmp(op, "DeleteAt")) {
        if (*len == 0 || a >= *len) {
            return;
        }
        f = viab ? GUARDED(c->del_b(mem, lb, (uint32_t)a)) : GUARDED(c->del(mem, *len, (uint32_t)a));
        (*len)--;
    }
    head("PkSeq", c, op, "seq");
    ev_int("len", oldlen);
    ev_int("newlen", *len);
    ev_int("a", (long long)a);
    put_val4("val", v);
    ev_int("fault", f);
    ev_int("ret", ret);
    ev_int("ret2", ret2);
    ev_bytes("pre", pre, membytes);
    ev_bytes("post", mem, membytes);
    ev_end();
}

static size_t seq_bytes(const pkcfg *c) {
    size_t sb = (size_t)c->slot / 8;
    /* SEQCAP elements plus one spare slot for the two-slot access path */
    return ((size_t)SEQCAP * (size_t)c->bits + (size_t)c->slot - 1) / (size_t)c->slot * sb + sb;
}

/* The sorted layer's behaviour depends on the ORDER of the values only, so a
 * walk over the model's alphabet {0, 1, 5, 7} is replayed under several
 * order-preserving embeddings into the element range: as is; spread over the
 * whole range with two values on either side of the element's top bit (the
 * sign bit of a same-width signed difference); and flush against the maximum. */
static unsigned long embed(unsigned long v, int bits, int mode) {
    unsigned long long max = bits >= 32 ? 0xFFFFFFFFULL : ((1ULL << bits) - 1);
    unsigned long long half = 1ULL << (bits - 1);
    if (mode == 1) {
        return (unsigned long)(v == 0 ? 0 : v == 1 ? half - 1 : v == 5 ? half : v == 7 ? max : v);
    }
    if (mode == 2) {
        return (unsigned long)(v <= 7 ? max - 7 + v : v);
    }
    return v;
}

static void run_pwalk(const pkcfg *c, char *spec, int mode) {
    /* the array lives in its own mapping that ends at a PROT_NONE page: a
     * sorted operation that runs away (a wrong length after a misreported
     * delete, a shift past the capacity) faults inside GUARDED instead of
     * trampling the driver's stack */
    size_t mb = seq_bytes(c);
    gbuf gm = gb_alloc(mb);
    uint8_t *mem = gm.p;
    fill(mem, mb, 2);
    uint32_t len = 0;
    ev_begin("PkNew");
    ev_str("cfg", c->name);
    ev_end();
    char *save = NULL;
    for (char *tok = strtok_r(spec, ";", &save); tok; tok = strtok_r(NULL, ";", &save)) {
        char op[24];
        unsigned long a = 0;
        if (sscanf(tok, " %23s %lu", op, &a) < 2) {
            continue;
        }
        int positional_op = !strcmp(op, "InsertAt") || !strcmp(op, "DeleteAt") || !strcmp(op, "Insert") || !strcmp(op, "Delete");
        seq_step(c, mem, mb, &len, op, 0, positional_op ? a : embed(a, c->bits, mode));
    }
    gb_free(&gm);
}

/* arrays filled to exactly the declared maximum of the instantiation: every
 * length argument up to and including the limit must be representable */
static void fill_walk(const pkcfg *c) {
    const char *m = strstr(c->variant, "max");
    unsigned long lim = m ? strtoul(m + 3, NULL, 10) : 0;
    if (!m || lim == 0 || lim > 300 || c->variant != m) {
        return;
    }
    size_t sb = (size_t)c->slot / 8;
    size_t mb = ((size_t)lim * (size_t)c->bits + (size_t)c->slot - 1) / (size_t)c->slot * sb + sb;
    gbuf gm = gb_alloc(mb);
    uint8_t *mem = gm.p;
    fill(mem, mb, 2);
    uint32_t len = 0;
    uint64_t ones = (1ULL << c->bits) - 1;
    ev_begin("PkNew");
    ev_str("cfg", c->name);
    ev_end();
    g_seqcap = (uint32_t)lim + 1;
    for (unsigned long i = 0; i < lim; i++) {
        seq_step(c, mem, mb, &len, "InsertSorted", 0, (i * 37 + 11) & ones);
    }
    /* the array is full: queries and removals at the full length */
    seq_step(c, mem, mb, &len, "Member", 0, (0 * 37 + 11) & ones);
    seq_step(c, mem, mb, &len, "Member", 0, ((lim - 1) * 37 + 11) & ones);
    seq_step(c, mem, mb, &len, "Member", 0, 12);
    seq_step(c, mem, mb, &len, "DeleteMember", 0, (5 * 37 + 11) & ones);
    seq_step(c, mem, mb, &len, "InsertSorted", 0, 4000);
    seq_step(c, mem, mb, &len, "DeleteAt", lim - 1, 0);
    seq_step(c, mem, mb, &len, "InsertAt", 0, 0);
    seq_step(c, mem, mb, &len, "DeleteMember", 0, 0);
    g_seqcap = SEQCAP;
    gb_free(&gm);
}

static void positional(const pkcfg *c) {
    /* Insert(pos)/Delete(pos) on arbitrary (unsorted) arrays */
    size_t mb = seq_bytes(c);
    gbuf gm = gb_alloc(mb);
    uint8_t *mem = gm.p;
    uint64_t ones = c->bits >= 32 ? 0xFFFFFFFFULL : ((1ULL << c->bits) - 1);
    for (int rep = 0; rep < 4; rep++) {
        fill(mem, mb, 2);
        uint32_t len = 0;
        ev_begin("PkNew");
        ev_str("cfg", c->name);
        ev_end();
        for (int s = 0; s < 12; s++) {
            uint64_t v = rng_u64() & ones;
            if (rng_u64() % 3 && len < SEQCAP - 1) {
                uint64_t pos = (rng_u64() % 3 == 0) ? len : (rng_u64() % 2 ? 0 : rng_u64() % (len + 1));
                seq_step(c, mem, mb, &len, "InsertAt", pos, v);
            } else if (len > 0) {
                uint64_t pos = (rng_u64() % 3 == 0) ? len - 1 : (rng_u64() % 2 ? 0 : rng_u64() % len);
                seq_step(c, mem, mb, &len, "DeleteAt", pos, 0);
            }
        }
    }
    gb_free(&gm);
}

int main(int argc, char **argv) {
    if (argc < 5) {
        fprintf(stderr, "usage: %s walks shard nshards out\n", argv[0]);
        return 2;
    }
    size_t shard = strtoul(argv[2], NULL, 10), nshards = strtoul(argv[3], NULL, 10);
    tr_open(argv[4]);
    guard_install();
    rng_seed(env_seed());
    for (int k = 0; k < NPK; k++) {
        uint64_t r = rng_u64();
        (void)r;
        if ((size_t)k % nshards != shard) {
            continue;
        }
        rng_seed(env_seed() * 31 + (uint64_t)k);
        cells(&PK[k]);
        far_cells(&PK[k]);
        fill_walk(&PK[k]);
        positional(&PK[k]);
    }
    FILE *f = fopen(argv[1], "r");
    if (!f) {
        perror(argv[1]);
        return 2;
    }
    /* configurations wide enough for the walk alphabet (values < 8) */
    int wide[256], nwide = 0;
    for (int k = 0; k < NPK; k++) {
        if (PK[k].bits >= 3) {
            wide[nwide++] = k;
        }
    }
    char line[1024];
    size_t idx = 0;
    while (fgets(line, sizeof(line), f)) {
        if (line[0] != 'P' || line[1] != 'W') {
            continue;
        }
        idx++;
        if (idx % nshards != shard) {
            continue;
        }
        {
            /* one embedding per walk (the walks are exhaustive over operation
             * sequences; the embedding rotates), 32-bit elements for half of
             * the spread / high replays */
            size_t pick = idx / nshards;
            int mode = (int)(pick % 3);
            const pkcfg *c = &PK[wide[pick % (size_t)nwide]];
            if (mode && (pick / 3) % 2 == 0) {
                for (int k = 0; k < NPK; k++) {
                    if (PK[k].bits == 32 && (size_t)k % 4 == (pick / 6) % 4) {
                        c = &PK[k];
                    }
                }
            }
            run_pwalk(c, line + 2, mode);
        }
    }
    fclose(f);
    tr_close();
    return 0;
}
