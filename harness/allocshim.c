/* see allocshim.h */
#define _GNU_SOURCE
#include "allocshim.h"
#include <stdint.h>
#include <string.h>
#include <sys/mman.h>

void *__real_malloc(size_t);
void *__real_calloc(size_t, size_t);
void *__real_realloc(void *, size_t);
void __real_free(void *);

volatile int shim_on;
volatile int shim_always;
int shim_fence;
int shim_bypass;
long shim_fail_at, shim_calls, shim_failed, shim_refused;
size_t shim_max_req, shim_cap;

#define TAB (1u << 16)
typedef struct blk {
    void *p; /* NULL = empty, (void*)1 = tombstone */
    size_t n;
    void *map; /* fence blocks: mapping base */
    size_t maplen;
} blk;
static blk tab[TAB];
static long nlive;
static size_t live_bytes;

static unsigned hashp(const void *p) {
    uintptr_t x = (uintptr_t)p;
    x ^= x >> 17;
    x *= 0x9E3779B97F4A7C15ULL;
    return (unsigned)(x >> 40) & (TAB - 1);
}
static blk *find(const void *p) {
    if (!p) {
        return NULL;
    }
    unsigned h = hashp(p);
    for (unsigned i = 0; i < TAB; i++) {
        blk *b = &tab[(h + i) & (TAB - 1)];
        if (b->p == p) {
            return b;
        }
        if (b->p == NULL) {
            return NULL;
        }
    }
    return NULL;
}
static void track(void *p, size_t n, void *map, size_t maplen) {
    unsigned h = hashp(p);
    for (unsigned i = 0; i < TAB; i++) {
        blk *b = &tab[(h + i) & (TAB - 1)];
        if (b->p == NULL || b->p == (void *)1) {
            b->p = p;
            b->n = n;
            b->map = map;
            b->maplen = maplen;
            nlive++;
            live_bytes += n;
            return;
        }
    }
}
static void untrack(blk *b) {
    nlive--;
    live_bytes -= b->n;
    b->p = (void *)1;
}

void shim_reset(void) {
    shim_calls = shim_failed = shim_refused = 0;
    shim_max_req = 0;
}
long shim_live(void) {
    return nlive;
}
size_t shim_live_bytes(void) {
    return live_bytes;
}
void shim_forget_all(void) {
    memset(tab, 0, sizeof(tab));
    nlive = 0;
    live_bytes = 0;
}

static void *fence_alloc(size_t n) {
    size_t pg = 4096;
    size_t pages = (n + pg - 1) / pg;
    if (pages == 0) {
        pages = 1;
    }
    size_t maplen = (pages + 1) * pg;
    uint8_t *m = mmap(NULL, maplen, PROT_READ | PROT_WRITE,
                      MAP_PRIVATE | MAP_ANONYMOUS, -1, 0);
    if (m == MAP_FAILED) {
        return NULL;
    }
    mprotect(m + pages * pg, pg, PROT_NONE);
    /* end-align, keeping the natural alignment of the request size */
    size_t al = 16;
    while (al > 1 && (n % al) != 0) {
        al >>= 1;
    }
    uint8_t *p = m + pages * pg - n;
    p = (uint8_t *)((uintptr_t)p & ~(uintptr_t)(al - 1));
    memset(m, 0xD7, (size_t)(p - m)); /* stale-looking garbage before the block */
    memset(p, 0xD7, n);
    track(p, n, m, maplen);
    return p;
}

static void *shim_alloc(size_t n, int zero) {
    shim_calls++;
    if (n > shim_max_req) {
        shim_max_req = n;
    }
    if (shim_fail_at > 0 && shim_calls == shim_fail_at) {
        shim_failed++;
        return NULL;
    }
    if (shim_cap && n > shim_cap) {
        shim_refused++;
        return NULL;
    }
    void *p;
    if (shim_fence) {
        p = fence_alloc(n ? n : 1);
        if (p && zero) {
            memset(p, 0, n);
        }
        return p;
    }
    p = zero ? __real_calloc(1, n ? n : 1) : __real_malloc(n ? n : 1);
    if (p) {
        if (!zero) {
            memset(p, 0xD7, n); /* never hand out zeroed memory by luck */
        }
        track(p, n, NULL, 0);
    }
    return p;
}

void *__wrap_malloc(size_t n) {
    if (shim_bypass || (!shim_on && !shim_always)) {
        return __real_malloc(n);
    }
    return shim_alloc(n, 0);
}
void *__wrap_calloc(size_t a, size_t b) {
    if (shim_bypass || (!shim_on && !shim_always)) {
        return __real_calloc(a, b);
    }
    size_t n;
    if (__builtin_mul_overflow(a, b, &n)) {
        shim_calls++;
        return NULL;
    }
    return shim_alloc(n, 1);
}
void __wrap_free(void *p) {
    blk *b = find(p);
    if (b) {
        void *map = b->map;
        size_t maplen = b->maplen;
        untrack(b);
        if (map) {
            munmap(map, maplen);
        } else {
            __real_free(p);
        }
        return;
    }
    __real_free(p);
}
void *__wrap_realloc(void *p, size_t n) {
    blk *b = find(p);
    if ((shim_bypass || (!shim_on && !shim_always)) && !b) {
        return __real_realloc(p, n);
    }
    if (shim_bypass || (!shim_on && !shim_always)) { /* tracked block resized outside a library call */
        if (b->map) {
            void *q = __real_malloc(n);
            if (q) {
                memcpy(q, p, b->n < n ? b->n : n);
                __wrap_free(p);
            }
            return q;
        }
        untrack(b);
        return __real_realloc(p, n);
    }
    /* inside a library call: a realloc is an allocation step */
    void *q = shim_alloc(n, 0);
    if (!q) {
        return NULL; /* original block untouched, as realloc promises */
    }
    if (p) {
        size_t old = b ? b->n : n; /* untracked origin: size unknown, copy n (callers grow) */
        if (!b) {
            /* cannot know the old size of a foreign block; use malloc_usable_size-free path */
            void *r = __real_realloc(p, n);
            if (r) {
                /* keep q out of the picture */
                blk *qb = find(q);
                if (qb) {
                    void *map = qb->map;
                    size_t maplen = qb->maplen;
                    untrack(qb);
                    if (map) {
                        munmap(map, maplen);
                    } else {
                        __real_free(q);
                    }
                }
                track(r, n, NULL, 0);
            }
            return r;
        }
        memcpy(q, p, old < n ? old : n);
        __wrap_free(p);
    }
    return q;
}
