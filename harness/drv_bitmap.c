/* Bitmap driver (C08): executes operation histories on the real varintBitmap
 * and logs every observer after every step.
 *
 *   drv_bitmap <walks> <shard> <nshards> <nrandom> <out.ndjson>
 *
 * walks file:  K <name> lo hi lo hi ...      second operands (interval lists)
 *              L <name> v v v ...            bulk-add lists
 *              W op a b k ; op a b k ; ...   one history, starting from empty
 * After the TLC-generated histories, <nrandom> seeded random histories of
 * length 40 that drive cardinality back and forth across 4096.
 *
 * Observers logged after every step: return value, container type (coverage
 * only), cardinality, IsEmpty, ToArray output and iterator output as maximal
 * runs of consecutive values IN OUTPUT ORDER, Contains on probe points, and
 * the second operand's content after a binary operation. */
#define _GNU_SOURCE
#include "varint.h"
#include "varintBitmap.h"

#define VERIF_SHIM 1
#include "guard.h"
#include "trace.h"

#define MAXK 16
static struct {
    char name[8];
    uint32_t iv[256][2];
    int niv;
} K[MAXK];
static int nK;
static struct {
    char name[8];
    uint16_t v[256];
    int n;
} L[MAXK];
static int nL;

static uint16_t scratch[70000];
long g_fault_k; /* fault plan of the current step (0 = none), for drv_alloc */

/* maximal runs of consecutive values in output order */
static void put_runs(const char *key, const uint16_t *v, uint32_t n) {
    fprintf(tr_f, ",\"%s\":[", key);
    int first = 1;
    uint32_t i = 0;
    while (i < n) {
        uint32_t j = i;
        while (j + 1 < n && v[j + 1] == (uint16_t)(v[j] + 1) && v[j] != 65535) {
            j++;
        }
        fprintf(tr_f, first ? "[%u,%u]" : ",[%u,%u]", v[i], (unsigned)v[j] + 1);
        first = 0;
        i = j + 1;
    }
    fputc(']', tr_f);
}

/* the serialisation produced by the last Codec step: container type before it, first bytes */
static uint8_t g_ser_head[40];
static int g_ser_type = -1;
static void observe(const char *op, long a, long b, const char *k, int f,
                    long ret, varintBitmap *vb, const varintBitmap *operand) {
    ev_begin("Bm");
    ev_str("op", op);
    ev_int("a", a);
    ev_int("b", b);
    ev_str("k", k);
    ev_int("fault", f);
    ev_int("ret", ret);
    ev_int("fk", g_fault_k);
    ev_int("nalloc", shim_calls);
    ev_int("injected", shim_failed);
    if (f || !vb) {
        ev_int("dead", 1);
        ev_end();
        return;
    }
    ev_int("dead", 0);
    ev_bytes("ser", g_ser_head, !strcmp(op, "Codec") && ret > 0 ? (size_t)(ret < 40 ? ret : 40) : 0);
    ev_int("ser_type", g_ser_type);
    ev_int("type", vb->type);
    ev_int("card", varintBitmapCardinality(vb));
    ev_int("empty", varintBitmapIsEmpty(vb));
    {
        varintBitmapStats st;
        memset(&st, 0xEE, sizeof(st));
        varintBitmapGetStats(vb, &st);
        ev_int("scard", st.cardinality);
        ev_int("sbytes", (long long)st.sizeBytes == (long long)varintBitmapSizeBytes(vb));
    }
    /* ToArray into a buffer big enough for the whole universe */
    uint32_t n = 0;
    int of = GUARDED(n = varintBitmapToArray(vb, scratch));
    ev_int("obs_fault", of);
    if (of) {
        n = 0;
    }
    ev_int("n", n);
    put_runs("ivs", scratch, n);
    /* probes: ends of the observed runs +-1 and fixed points */
    uint32_t probes[64];
    int np = 0;
    uint32_t fixed[] = {0, 1, 4095, 4096, 4097, 30000, 65534, 65535};
    for (int i = 0; i < 8; i++) {
        probes[np++] = fixed[i];
    }
    for (uint32_t i = 0; i < n && np < 56; i += (n / 12) + 1) {
        probes[np++] = scratch[i];
        if (scratch[i] > 0) {
            probes[np++] = scratch[i] - 1u;
        }
        if (scratch[i] < 65535) {
            probes[np++] = scratch[i] + 1u;
        }
    }
    fprintf(tr_f, ",\"probes\":[");
    for (int i = 0; i < np; i++) {
        bool c = false;
        int pf = GUARDED(c = varintBitmapContains(vb, (uint16_t)probes[i]));
        fprintf(tr_f, i ? ",[%u,%d]" : "[%u,%d]", probes[i], pf ? -1 : (int)c);
    }
    fputc(']', tr_f);
    /* iterator */
    static uint16_t itv[70000];
    uint32_t itn = 0;
    int itf = 0;
    {
        varintBitmapIterator it = varintBitmapCreateIterator(vb);
        bool more = true;
        while (more && itn < 70000 && !itf) {
            itf = GUARDED(more = varintBitmapIteratorNext(&it));
            if (!itf && more) {
                itv[itn++] = it.currentValue;
            }
        }
    }
    ev_int("it_fault", itf);
    ev_int("it_n", itn);
    put_runs("it_ivs", itv, itn);
    if (operand) {
        uint32_t kn = varintBitmapToArray(operand, scratch);
        ev_int("k_n", kn);
        put_runs("k_ivs", scratch, kn);
    }
    ev_end();
}

static varintBitmap *build_operand(const char *name) {
    for (int i = 0; i < nK; i++) {
        if (!strcmp(K[i].name, name)) {
            varintBitmap *vb = varintBitmapCreate();
            size_t nl = strlen(name);
            if (nl && name[nl - 1] == 'r') { /* run-container operand */
                for (int j = 0; j < K[i].niv; j++) {
                    varintBitmapAddRange(vb, (uint16_t)K[i].iv[j][0],
                                         (uint16_t)(K[i].iv[j][1] > 65535 ? 65535 : K[i].iv[j][1]));
                }
                return vb;
            }
            for (int j = 0; j < K[i].niv; j++) {
                /* element-wise so that the operand does not depend on AddRange */
                for (uint32_t x = K[i].iv[j][0]; x < K[i].iv[j][1]; x++) {
                    varintBitmapAdd(vb, (uint16_t)x);
                }
            }
            return vb;
        }
    }
    fprintf(stderr, "unknown operand %s\n", name);
    exit(2);
}

static uint8_t encbuf[1 << 17];

/* apply one operation; returns the (possibly replaced) bitmap */
static varintBitmap *apply(varintBitmap *vb, const char *op, long a, long b,
                           const char *k) {
    int f = 0;
    long ret = 1;
    varintBitmap *operand = NULL;
    if (!strcmp(op, "Add")) {
        bool r = false;
        f = GUARDED(r = varintBitmapAdd(vb, (uint16_t)a));
        ret = r;
    } else if (!strcmp(op, "Remove")) {
        bool r = false;
        f = GUARDED(r = varintBitmapRemove(vb, (uint16_t)a));
        ret = r;
    } else if (!strcmp(op, "AddRange")) {
        f = GUARDED(varintBitmapAddRange(vb, (uint16_t)a, (uint16_t)b));
    } else if (!strcmp(op, "RemoveRange")) {
        f = GUARDED(varintBitmapRemoveRange(vb, (uint16_t)a, (uint16_t)b));
    } else if (!strcmp(op, "Clear")) {
        f = GUARDED(varintBitmapClear(vb));
    } else if (!strcmp(op, "AddMany")) {
        for (int i = 0; i < nL; i++) {
            if (!strcmp(L[i].name, k)) {
                f = GUARDED(varintBitmapAddMany(vb, L[i].v, (uint32_t)L[i].n));
            }
        }
    } else if (!strcmp(op, "Optimize")) {
        f = GUARDED(varintBitmapOptimize(vb));
    } else if (!strcmp(op, "Clone")) {
        varintBitmap *c = NULL;
        f = GUARDED(c = varintBitmapClone(vb));
        if (!f && c) {
            varintBitmapFree(vb);
            vb = c;
        } else if (!f) {
            ret = 0; /* NULL: documented failure indication */
        }
    } else if (!strcmp(op, "AsRuns")) {
        /* the set arrives as a RUN container written by another producer of
         * the documented serialisation (type 2, cardinality, run count,
         * (start, length) pairs): the library itself only makes run containers
         * of more than 4096 members, a reader must take them at any size */
        static uint16_t vals[70000];
        uint32_t n = 0;
        f = GUARDED(n = varintBitmapToArray(vb, vals));
        if (!f && n > 0) {
            static uint8_t rb[9 + 4 * 70000];
            uint32_t nr = 0;
            size_t at = 9;
            for (uint32_t i = 0; i < n;) {
                uint32_t j = i;
                while (j + 1 < n && vals[j + 1] == vals[j] + 1 && j + 1 - i < 65535) {
                    j++;
                }
                uint16_t st = vals[i], ln = (uint16_t)(j - i + 1);
                memcpy(rb + at, &st, 2);
                memcpy(rb + at + 2, &ln, 2);
                at += 4;
                nr++;
                i = j + 1;
            }
            rb[0] = 2;
            memcpy(rb + 1, &n, 4);
            memcpy(rb + 5, &nr, 4);
            gbuf src = gb_alloc(at);
            memcpy(src.p, rb, at);
            varintBitmap *c = NULL;
            f = GUARDED(c = varintBitmapDecode(src.p, at));
            gb_free(&src);
            ret = (long)at;
            if (!f && c) {
                varintBitmapFree(vb);
                vb = c;
            } else if (!f) {
                ret = -1; /* a valid run-container serialisation was refused */
            }
        }
    } else if (!strcmp(op, "Codec")) {
        size_t n = 0;
        varintBitmap *c = NULL;
        g_ser_type = (int)vb->type;
        f = GUARDED(n = varintBitmapEncode(vb, encbuf));
        if (!f) {
            memcpy(g_ser_head, encbuf, n < 40 ? n : 40);
            gbuf src = gb_alloc(n);
            memcpy(src.p, encbuf, n);
            f = GUARDED(c = varintBitmapDecode(src.p, n));
            gb_free(&src);
            ret = (long)n;
            if (!f && c) {
                varintBitmapFree(vb);
                vb = c;
            } else if (!f) {
                ret = -1; /* decode of the encoder's own output failed */
            }
        }
    } else {
        int rev = op[0] == 'R';
        const char *base = rev ? op + 1 : op;
        operand = build_operand(k);
        const varintBitmap *x = rev ? operand : vb;
        const varintBitmap *y = rev ? vb : operand;
        varintBitmap *r = NULL;
        if (!strcmp(base, "Or")) {
            f = GUARDED(r = varintBitmapOr(x, y));
        } else if (!strcmp(base, "And")) {
            f = GUARDED(r = varintBitmapAnd(x, y));
        } else if (!strcmp(base, "Xor")) {
            f = GUARDED(r = varintBitmapXor(x, y));
        } else if (!strcmp(base, "AndNot")) {
            f = GUARDED(r = varintBitmapAndNot(x, y));
        } else {
            fprintf(stderr, "unknown op %s\n", op);
            exit(2);
        }
        if (!f && r) {
            /* the first operand must be unchanged: observe it before freeing */
            observe("Operand", 0, 0, k, 0, 1, vb, NULL);
            varintBitmapFree(vb);
            vb = r;
        } else if (!f) {
            ret = 0; /* NULL: documented failure indication */
        }
    }
    observe(op, a, b, k, f, ret, vb, operand);
    if (operand) {
        varintBitmapFree(operand);
    }
    if (f) {
        shim_forget_all();
        return NULL;
    }
    return vb;
}

static void run_walk(char *spec) {
    ev_begin("BmNew");
    ev_end();
    varintBitmap *vb = varintBitmapCreate();
    char *save = NULL;
    for (char *tok = strtok_r(spec, ";", &save); tok && vb;
         tok = strtok_r(NULL, ";", &save)) {
        char op[16], k[8] = "";
        long a = 0, b = 0;
        int n = sscanf(tok, " %15s %ld %ld %7s", op, &a, &b, k);
        if (n < 3) {
            continue;
        }
        if (n < 4 || !strcmp(k, "-")) {
            k[0] = 0;
        }
        vb = apply(vb, op, a, b, k);
    }
    if (vb) {
        varintBitmapFree(vb);
    }
}

static void random_walk(void) {
    static const char *ops[] = {"Add", "Remove", "AddRange", "RemoveRange",
                                "AddRange", "Add", "Clone", "Codec", "Clear",
                                "Or", "And", "Xor", "AndNot", "RAndNot", "AddMany", "Optimize", "AsRuns"};
    char buf[4096];
    size_t pos = 0;
    for (int s = 0; s < 40; s++) {
        const char *op = ops[rng_u64() % 17];
        long a = 0, b = 0;
        const char *k = "-";
        if (!strcmp(op, "Add") || !strcmp(op, "Remove")) {
            long c[] = {0, 1, 4095, 4096, 4097, 65535, (long)(rng_u64() % 65536)};
            a = c[rng_u64() % 7];
        } else if (!strcmp(op, "AddRange") || !strcmp(op, "RemoveRange")) {
            long lens[] = {1, 2, 100, 4095, 4096, 4097, 5000, 20000};
            a = (long)(rng_u64() % 61000);
            if (rng_u64() % 3 == 0) {
                a = 0;
            }
            b = a + lens[rng_u64() % 8];
            if (b > 65535) {
                b = 65535;
            }
        } else if (!strcmp(op, "AddMany")) {
            k = L[rng_u64() % (unsigned)nL].name;
        } else if (!strcmp(op, "Clone") || !strcmp(op, "Codec") || !strcmp(op, "Clear") || !strcmp(op, "Optimize") || !strcmp(op, "AsRuns")) {
            if (!strcmp(op, "Clear") && rng_u64() % 3) {
                op = "Codec";
            }
        } else {
            k = K[rng_u64() % (unsigned)nK].name;
        }
        pos += (size_t)snprintf(buf + pos, sizeof(buf) - pos, "%s %ld %ld %s ;",
                                op, a, b, k);
    }
    run_walk(buf);
}

#ifndef DRV_BITMAP_NO_MAIN
int main(int argc, char **argv) {
    if (argc < 6) {
        fprintf(stderr, "usage: %s walks shard nshards nrandom out\n", argv[0]);
        return 2;
    }
    FILE *f = fopen(argv[1], "r");
    if (!f) {
        perror(argv[1]);
        return 2;
    }
    size_t shard = strtoul(argv[2], NULL, 10), nshards = strtoul(argv[3], NULL, 10);
    size_t nrandom = strtoul(argv[4], NULL, 10);
    tr_open(argv[5]);
    guard_install();
    shim_fence = 0; /* heap fencing is too slow for 8 KiB containers x 10^5 ops */
    static char line[1 << 16];
    size_t idx = 0;
    while (fgets(line, sizeof(line), f)) {
        if (line[0] == 'K' && nK < MAXK) {
            char *p = line + 1;
            int pos = 0;
            sscanf(p, " %7s%n", K[nK].name, &pos);
            p += pos;
            K[nK].niv = 0;
            unsigned lo, hi;
            while (sscanf(p, " %u %u%n", &lo, &hi, &pos) == 2 && K[nK].niv < 256) {
                K[nK].iv[K[nK].niv][0] = lo;
                K[nK].iv[K[nK].niv][1] = hi;
                K[nK].niv++;
                p += pos;
            }
            nK++;
        } else if (line[0] == 'L' && nL < MAXK) {
            char *p = line + 1;
            int pos = 0;
            sscanf(p, " %7s%n", L[nL].name, &pos);
            p += pos;
            L[nL].n = 0;
            unsigned v;
            while (sscanf(p, " %u%n", &v, &pos) == 1 && L[nL].n < 256) {
                L[nL].v[L[nL].n++] = (uint16_t)v;
                p += pos;
            }
            nL++;
        } else if (line[0] == 'W') {
            idx++;
            if (idx % nshards != shard) {
                continue;
            }
            run_walk(line + 1);
        }
    }
    fclose(f);
    for (size_t i = 0; i < nrandom; i++) {
        rng_seed(env_seed() * 7919ULL + i);
        if (i % nshards != shard) {
            continue;
        }
        random_walk();
    }
    tr_close();
    return 0;
}
#endif
