/* Thread driver (C17): T threads run the pure codecs simultaneously on
 * SHARED read-only inputs and PRIVATE outputs, released together by a
 * barrier for every burst; each thread logs Begin/End of every call with a
 * per-thread sequence number and the complete result (length + digest +
 * head bytes); a sequential pass AFTER the threads logs the "alone" results.
 *
 *   drv_threads <nthreads> <rounds> <out-prefix>
 *
 * One trace file per thread (<prefix>-tNN.ndjson) plus <prefix>-alone.ndjson:
 * actions of different threads commute in Threads.tla, so the per-thread logs
 * are validated independently of any cross-thread order. */
#define _GNU_SOURCE
#include <pthread.h>
#define TR_TLS __thread /* per-thread trace files */
#include "trace.h"
#define tr_tls tr_f

#include "varint.h"
#include "varintAdaptive.h"
#include "varintBP128.h"
#include "varintBitmap.h"
#include "varintChained.h"
#include "varintChainedSimple.h"
#include "varintDelta.h"
#include "varintDict.h"
#include "varintElias.h"
#include "varintFOR.h"
#include "varintFloat.h"
#include "varintGroup.h"
#include "varintPFOR.h"
#include "varintRLE.h"
#include "varintTagged.h"
#define VBITS uint64_t
#include "varintBitstream.h"
#define PACK_STORAGE_BITS 12
#define PACK_STATIC
#define PACK_FUNCTION_PREFIX thr_
#include "varintPacked.h"

#define NIN 6
#define N 257
static uint64_t IN[NIN][N];  /* shared, read-only after init */
static double DIN[N];

typedef size_t (*callfn)(int input, uint8_t *out, size_t cap);

static size_t c_tagged(int in, uint8_t *o, size_t cap) {
    size_t p = 0;
    for (int i = 0; i < N && p + 9 <= cap; i++) p += varintTaggedPut64(o + p, IN[in][i]);
    uint64_t v, acc = 0;
    for (size_t q = 0; q < p;) { q += varintTaggedGet64(o + q, &v); acc += v; }
    memcpy(o + p, &acc, 8);
    return p + 8;
}
static size_t c_ext(int in, uint8_t *o, size_t cap) {
    size_t p = 0;
    (void)cap;
    for (int i = 0; i < N; i++) { varintWidth w = varintExternalPut(o + p + 1, IN[in][i]); o[p] = (uint8_t)w; p += 1 + w; }
    return p;
}
static size_t c_chained(int in, uint8_t *o, size_t cap) {
    size_t p = 0;
    (void)cap;
    for (int i = 0; i < N; i++) p += varintChainedPutVarint(o + p, IN[in][i]);
    for (int i = 0; i < N; i++) p += varintChainedSimpleEncode64(o + p, IN[in][i]);
    return p;
}
static size_t c_delta(int in, uint8_t *o, size_t cap) { (void)cap; return varintDeltaEncodeUnsigned(o, IN[in], N); }
static size_t c_for(int in, uint8_t *o, size_t cap) {
    (void)cap;
    varintFORMeta m; memset(&m, 0, sizeof(m));
    size_t w = varintFOREncode(o, IN[in], N, &m);
    uint64_t back[N];
    varintFORDecode(o, back, N);
    memcpy(o + w, back, 64);
    return w + 64;
}
static size_t c_pfor(int in, uint8_t *o, size_t cap) {
    (void)cap;
    varintPFORMeta m; memset(&m, 0, sizeof(m));
    size_t w = varintPFOREncode(o, IN[in], N, 95, &m);
    uint64_t back[N];
    varintPFORMeta dm; memset(&dm, 0, sizeof(dm));
    varintPFORDecode(o, back, &dm);
    memcpy(o + w, back + N - 8, 64);
    return w + 64;
}
/* readers and accessors of every codec run concurrently too: full decoders,
 * random access, header accessors, sizing functions */
static size_t put_u64s(uint8_t *o, size_t at, const uint64_t *v, size_t k) {
    memcpy(o + at, v, k * 8);
    return at + k * 8;
}
static size_t c_group(int in, uint8_t *o, size_t cap) {
    (void)cap;
    size_t w = varintGroupEncode(o, IN[in], 40);
    uint64_t r[8] = {0};
    uint64_t back[64];
    uint8_t fc = 0;
    r[0] = varintGroupDecode(o, back, &fc, 64);
    r[1] = fc;
    r[2] = varintGroupGetSize(o);
    r[3] = varintGroupGetFieldCount(o);
    varintGroupGetField(o, 0, &r[4]);
    varintGroupGetField(o, 17, &r[5]);
    varintGroupGetField(o, 39, &r[6]);
    r[7] = varintGroupSize(IN[in], 40);
    size_t at = put_u64s(o, w, r, 8);
    return put_u64s(o, at, back, 40);
}
static size_t c_readers(int in, uint8_t *o, size_t cap) {
    (void)cap;
    uint64_t r[24] = {0};
    uint8_t *buf = o + 8192; /* scratch inside the private output */
    varintFORMeta fm; memset(&fm, 0, sizeof(fm));
    size_t w = varintFOREncode(buf, IN[in], N, &fm);
    r[0] = w; r[1] = varintFORGetAt(buf, 0); r[2] = varintFORGetAt(buf, N - 1); r[3] = varintFORGetCount(buf);
    r[4] = varintFORGetMinValue(buf); r[5] = varintFORGetOffsetWidth(buf); r[6] = varintFORSize(&fm);
    varintPFORMeta pm; memset(&pm, 0, sizeof(pm));
    w = varintPFOREncode(buf, IN[in], N, 95, &pm);
    varintPFORMeta rm; memset(&rm, 0, sizeof(rm));
    varintPFORReadMeta(buf, &rm);
    r[7] = w; r[8] = varintPFORGetAt(buf, 3, &rm); r[9] = varintPFORGetAt(buf, N - 1, &rm); r[10] = rm.exceptionCount;
    w = varintRLEEncode(buf, IN[in], N, NULL);
    r[11] = w; r[12] = varintRLEGetAt(buf, N / 2); r[13] = varintRLEGetRunCount(buf, w); r[14] = varintRLESize(IN[in], N);
    w = varintDictEncode(buf, IN[in], N);
    size_t cnt = 0;
    uint64_t *d = w ? varintDictDecode(buf, w, &cnt) : NULL;
    r[15] = w; r[16] = cnt; r[17] = d ? d[cnt - 1] : 0; r[18] = varintDictEncodedSize(IN[in], N);
    free(d);
    w = varintAdaptiveEncode(buf, IN[in], N, NULL);
    varintAdaptiveMeta am; memset(&am, 0, sizeof(am));
    varintAdaptiveReadMeta(buf, &am);
    r[19] = w; r[20] = am.encodingType; r[21] = varintAdaptiveGetEncodingType(buf);
    r[22] = varintBP128MaxBitWidth64(IN[in], N); r[23] = varintTaggedLen(IN[in][5]);
    return put_u64s(o, 0, r, 24);
}
static size_t c_dict(int in, uint8_t *o, size_t cap) {
    (void)cap;
    size_t w = varintDictEncode(o, IN[in], N);
    uint64_t back[N];
    size_t r = w ? varintDictDecodeInto(o, w, back, N) : 0;
    memcpy(o + w, &r, 8);
    return w + 8;
}
static size_t c_rle(int in, uint8_t *o, size_t cap) { (void)cap; return varintRLEEncodeWithHeader(o, IN[in], N, NULL); }
static size_t c_elias(int in, uint8_t *o, size_t cap) {
    (void)cap;
    uint64_t v[N];
    for (int i = 0; i < N; i++) v[i] = IN[in][i] | 1;
    memset(o, 0, 4096);
    size_t a = varintEliasGammaEncodeArray(o, v, 64, NULL);
    memset(o + a, 0, 4096);
    return a + varintEliasDeltaEncodeArray(o + a, v, N, NULL);
}
static size_t c_bp(int in, uint8_t *o, size_t cap) {
    (void)cap;
    size_t a = varintBP128Encode64(o, IN[in], N, NULL);
    uint32_t v32[N];
    for (int i = 0; i < N; i++) v32[i] = (uint32_t)IN[in][i];
    return a + varintBP128Encode32(o + a, v32, N, NULL);
}
static size_t c_float(int in, uint8_t *o, size_t cap) {
    (void)cap; (void)in;
    size_t w = varintFloatEncode(o, DIN, N, VARINT_FLOAT_PRECISION_MEDIUM, VARINT_FLOAT_MODE_DELTA_EXPONENT);
    double back[N];
    varintFloatDecode(o, N, back);
    memcpy(o + w, back, 64);
    return w + 64;
}
static size_t c_adaptive(int in, uint8_t *o, size_t cap) {
    (void)cap;
    size_t w = varintAdaptiveEncode(o, IN[in], N, NULL);
    uint64_t back[N];
    size_t r = varintAdaptiveDecode(o, back, N, NULL);
    memcpy(o + w, &r, 8);
    memcpy(o + w + 8, back, 64);
    return w + 72;
}
/* Large inputs: every leaf of the adaptive selection with arrays long enough
 * for the dense bitmap container (> 4096 members), the sampled uniqueness
 * estimate (> 10000), multi-block packing, and a private bitmap object per
 * call.  BIG[k] is shared and read-only; per-input variation comes from the
 * offset `in`. */
#define NBIG 12000
static uint64_t BIG[4][NBIG + 8];
static void big_init(void) {
    for (size_t i = 0; i < NBIG + 8; i++) {
        BIG[0][i] = i * 3;                                   /* sorted, unique, < 65536 for i < 21845: BITMAP */
        BIG[1][i] = 1000 + (i % 13);                         /* repetitive: DICT */
        BIG[2][i] = 1000000 + i * 7;                         /* sorted, large: DELTA */
        BIG[3][i] = (i * 2654435761ULL) % 100000 + (i % 40 == 39 ? 1ULL << 40 : 0); /* outliers: PFOR / FOR */
    }
}
static size_t c_adaptive_big(int in, uint8_t *o, size_t cap) {
    (void)cap;
    static const size_t lens[NIN] = {5000, 9000, 4097, 12000, 6000, 4500};
    size_t n = lens[in % NIN];
    const uint64_t *src = BIG[in % 4] + (in % 8);
    uint8_t *buf = malloc(varintAdaptiveMaxSize(n));
    uint64_t *back = malloc(n * 8);
    size_t w = varintAdaptiveEncode(buf, src, n, NULL);
    size_t r = w ? varintAdaptiveDecode(buf, back, n, NULL) : 0;
    uint64_t h = 1469598103934665603ULL;
    for (size_t i = 0; i < w; i++) h = (h ^ buf[i]) * 1099511628211ULL;
    for (size_t i = 0; i < r; i++) h = (h ^ back[i]) * 1099511628211ULL;
    memcpy(o, &w, 8);
    memcpy(o + 8, &r, 8);
    memcpy(o + 16, &h, 8);
    free(buf);
    free(back);
    return 24;
}
static size_t c_bitmap_obj(int in, uint8_t *o, size_t cap) {
    (void)cap;
    /* a private set per call: array -> dense -> array again, set algebra, serialisation */
    varintBitmap *a = varintBitmapCreate(), *b = varintBitmapCreate();
    for (uint32_t i = 0; i < 5000; i++) varintBitmapAdd(a, (uint16_t)(i * 3 + (uint32_t)in));
    varintBitmapAddRange(b, (uint16_t)(100 + in), (uint16_t)(9000 + in));
    varintBitmap *u = varintBitmapOr(a, b), *x = varintBitmapXor(a, b), *c = varintBitmapClone(a);
    for (uint32_t i = 0; i < 2000; i++) varintBitmapRemove(c, (uint16_t)(i * 3 + (uint32_t)in));
    static __thread uint8_t enc[20000];
    size_t w = varintBitmapEncode(u, enc);
    varintBitmap *d = varintBitmapDecode(enc, w);
    uint32_t cards[5] = {varintBitmapCardinality(u), varintBitmapCardinality(x), varintBitmapCardinality(c),
                         d ? varintBitmapCardinality(d) : 0xFFFFFFFFu, (uint32_t)w};
    uint64_t h = 1469598103934665603ULL;
    for (size_t i = 0; i < w; i++) h = (h ^ enc[i]) * 1099511628211ULL;
    memcpy(o, cards, sizeof(cards));
    memcpy(o + sizeof(cards), &h, 8);
    varintBitmapFree(a); varintBitmapFree(b); varintBitmapFree(u); varintBitmapFree(x); varintBitmapFree(c);
    if (d) varintBitmapFree(d);
    return sizeof(cards) + 8;
}
/* Packed arrays and bitstreams "on disjoint storage": each thread owns exactly
 * the slots of its own array, and the arrays of all threads lie back to back
 * in one slab (disjoint, not distant).  200 12-bit elements are exactly 75
 * 32-bit slots; the bitstream is filled up to exactly 100 64-bit words. */
#define MAXTHREADS 64
#define PK_REGION 300
#define BS_REGION 800
static uint8_t g_pk_slab[MAXTHREADS * PK_REGION] __attribute__((aligned(64)));
static uint8_t g_bs_slab[MAXTHREADS * BS_REGION] __attribute__((aligned(64)));
static __thread int tl_tid;
static size_t c_packed(int in, uint8_t *o, size_t cap) {
    (void)cap;
    uint8_t *mine = g_pk_slab + (size_t)tl_tid * PK_REGION;
    memset(mine, 0, PK_REGION);
    for (int i = 0; i < 200; i++) thr_12Set(mine, (uint32_t)i, (uint16_t)(IN[in][i] & 0xFFF));
    uint16_t acc = 0;
    for (int i = 0; i < 200; i++) acc ^= thr_12Get(mine, (uint32_t)i);
    memcpy(o, mine, PK_REGION);
    memcpy(o + PK_REGION, &acc, 2);
    return PK_REGION + 2;
}
static size_t c_bitstream(int in, uint8_t *o, size_t cap) {
    (void)cap;
    uint8_t *mine = g_bs_slab + (size_t)tl_tid * BS_REGION;
    memset(mine, 0, BS_REGION);
    size_t off = 0, total = BS_REGION * 8;
    for (int i = 0; off < total; i++) {
        size_t w = 1 + (size_t)(IN[in][i % N] % 63);
        if (off + w > total || total - (off + w) < 1) {
            w = total - off; /* the last field ends exactly on the region's last bit */
        }
        if (w > 64) {
            w = 64;
        }
        uint64_t v = IN[in][i % N] & (w >= 64 ? ~0ULL : ((1ULL << w) - 1));
        varintBitstreamSet((vbits *)mine, off, w, v);
        off += w;
    }
    uint64_t acc = 0;
    for (size_t b = 0; b + 64 <= total; b += 64) acc ^= varintBitstreamGet((const vbits *)mine, b, 64);
    memcpy(o, mine, BS_REGION);
    memcpy(o + BS_REGION, &acc, 8);
    return BS_REGION + 8;
}

/* Scalar varints "on disjoint storage" in the sense of a record of fields:
 * the threads' regions lie back to back with no padding; each region starts
 * with a tagged varint that its owner rewrites at every step and ends --
 * flush against the next thread's region -- with a varint of every width in
 * turn that its owner steps in place (tagged and external add, no-grow).  A
 * call that touches a byte outside its own varint disturbs the neighbour. */
#define SC_REGION 40
static uint8_t g_sc_slab[MAXTHREADS * SC_REGION + 64] __attribute__((aligned(64)));
static const uint64_t SC_BASE[10] = {0, 7, 300, 3000, 70000, 1ULL << 25, 1ULL << 33, 1ULL << 41, 1ULL << 49, 1ULL << 57};
static size_t c_scalar_slab(int in, uint8_t *o, size_t cap) {
    (void)cap;
    uint8_t *mine = g_sc_slab + (size_t)tl_tid * SC_REGION;
    memset(mine, 0, SC_REGION);
    uint64_t acc = 0;
    for (int rep = 0; rep < 24; rep++) {
        for (int w = 1; w <= 9; w++) {
            int ext = rep & 1;
            if (ext && w == 9) {
                continue;
            }
            uint8_t *tail = mine + SC_REGION - w;
            uint64_t base = (ext ? (w == 1 ? 5 : 1ULL << (8 * (w - 1))) : SC_BASE[w]) + IN[in][rep] % 50;
            if (ext) {
                varintExternalPutFixedWidth(tail, base, (varintWidth)w);
            } else {
                varintTaggedPut64(tail, base);
            }
            for (int k = 0; k < 6; k++) {
                uint64_t hv = IN[in][(rep * 9 + w + k) % N], got = 0;
                varintTaggedPut64(mine, hv);
                varintExternalPutFixedWidth(mine + 9, hv, 8);
                if (ext) {
                    varintExternalAddNoGrow(tail, (varintWidth)w, 1 + k);
                    got = varintExternalGet(tail, (varintWidth)w);
                } else {
                    varintTaggedAddNoGrow(tail, 1 + k);
                    varintTaggedGet64(tail, &got);
                }
                acc = acc * 1099511628211ULL + got;
                varintTaggedGet64(mine, &got);
                acc = acc * 1099511628211ULL + got;
                acc = acc * 1099511628211ULL + varintExternalGet(mine + 9, 8);
            }
        }
    }
    memcpy(o, &acc, 8);
    return 8;
}

/* Shared read-only OBJECTS (not only shared value arrays): a pre-analysed
 * frame-of-reference descriptor that every thread passes to the encoder, a
 * built dictionary every thread encodes and looks up with, one encoded PFOR
 * buffer with its parsed header that every thread reads through.  They are
 * built once (by thread 0, between the cold start and the rounds) and never
 * written again by the harness; a call that writes to them races. */
static varintFORMeta g_sh_for[NIN];
static varintDict *g_sh_dict[NIN];
static uint8_t g_sh_pfor[NIN][N * 10 + 64];
static varintPFORMeta g_sh_pfor_meta[NIN];
static varintBitmap *g_sh_bm[3]; /* array, bitmap and run container: operands and query targets of every thread */
static int g_sh_ready;
static void build_shared(void) {
    for (int k = 0; k < 3; k++) {
        g_sh_bm[k] = varintBitmapCreate();
    }
    for (int i = 0; i < 900; i++) varintBitmapAdd(g_sh_bm[0], (uint16_t)(i * 7 + 3));
    for (int i = 0; i < 6000; i++) varintBitmapAdd(g_sh_bm[1], (uint16_t)(i * 3 + 1));
    varintBitmapAddRange(g_sh_bm[2], 100, 9000);
    for (int k = 0; k < NIN; k++) {
        varintFORAnalyze(IN[k], N, &g_sh_for[k]);
        g_sh_dict[k] = varintDictCreate();
        if (g_sh_dict[k]) varintDictBuild(g_sh_dict[k], IN[k], N);
        varintPFORMeta em; memset(&em, 0, sizeof(em));
        varintPFOREncode(g_sh_pfor[k], IN[k], N, 95, &em);
        memset(&g_sh_pfor_meta[k], 0, sizeof(g_sh_pfor_meta[k]));
        varintPFORReadMeta(g_sh_pfor[k], &g_sh_pfor_meta[k]);
    }
    g_sh_ready = 1;
}
static size_t c_shared(int in, uint8_t *o, size_t cap) {
    (void)cap;
    uint64_t r[12] = {0};
    if (!g_sh_ready) {
        return put_u64s(o, 0, r, 12);
    }
    uint8_t *buf = o + 4096;
    size_t w = varintFOREncode(buf, IN[in], N, &g_sh_for[in]); /* pre-analysed: the descriptor is an input */
    uint64_t h = 1469598103934665603ULL;
    for (size_t i = 0; i < w; i++) h = (h ^ buf[i]) * 1099511628211ULL;
    r[0] = w; r[1] = h; r[2] = varintFORSize(&g_sh_for[in]);
    if (g_sh_dict[in]) {
        w = varintDictEncodeWithDict(buf, g_sh_dict[in], IN[in], N);
        h = 1469598103934665603ULL;
        for (size_t i = 0; i < w; i++) h = (h ^ buf[i]) * 1099511628211ULL;
        r[3] = w; r[4] = h;
        r[5] = (uint64_t)varintDictFind(g_sh_dict[in], IN[in][N / 2]);
        r[6] = varintDictLookup(g_sh_dict[in], 0);
    }
    r[7] = varintPFORGetAt(g_sh_pfor[in], 0, &g_sh_pfor_meta[in]);
    r[8] = varintPFORGetAt(g_sh_pfor[in], N - 1, &g_sh_pfor_meta[in]);
    r[9] = varintPFORGetAt(g_sh_pfor[in], N / 2, &g_sh_pfor_meta[in]);
    r[10] = varintPFORSize(&g_sh_pfor_meta[in]);
    {
        const varintBitmap *a = g_sh_bm[in % 3], *b = g_sh_bm[(in + 1) % 3];
        varintBitmap *u = varintBitmapOr(a, b), *x = varintBitmapAndNot(b, a), *c = varintBitmapClone(a);
        uint64_t acc = varintBitmapCardinality(a) * 31 + varintBitmapContains(b, (uint16_t)IN[in][3]);
        acc = acc * 31 + (u ? varintBitmapCardinality(u) : 0);
        acc = acc * 31 + (x ? varintBitmapCardinality(x) : 0);
        acc = acc * 31 + (c ? varintBitmapCardinality(c) : 0);
        size_t w2 = varintBitmapEncode(a, buf);
        for (size_t i = 0; i < w2; i++) acc = (acc ^ buf[i]) * 1099511628211ULL;
        varintBitmapStats st; memset(&st, 0, sizeof(st));
        varintBitmapGetStats(b, &st);
        acc = acc * 31 + st.cardinality;
        if (u) varintBitmapFree(u);
        if (x) varintBitmapFree(x);
        if (c) varintBitmapFree(c);
        r[11] = acc;
    }
    return put_u64s(o, 0, r, 12);
}

/* Short inputs: implementations switch strategy with the input size (stack or
 * static scratch instead of the heap, unrolled tails, no blocks); every array
 * codec once more on the first 12 and 100 values, per-thread different data */
static size_t c_small(int in, uint8_t *o, size_t cap) {
    (void)cap;
    size_t at = 0;
    for (int pass = 0; pass < 2; pass++) {
        size_t n = pass ? 100 : 12;
        const uint64_t *xs = IN[in] + (pass ? 3 : 0);
        uint8_t *buf = o + 16384;
        uint64_t back[128];
        uint64_t r[16] = {0};
        varintFORMeta fm; memset(&fm, 0, sizeof(fm));
        size_t w = varintFOREncode(buf, xs, n, &fm);
        r[0] = w; r[1] = varintFORDecode(buf, back, n); r[2] = back[n - 1];
        varintPFORMeta pm; memset(&pm, 0, sizeof(pm));
        w = varintPFOREncode(buf, xs, (uint32_t)n, 95, &pm);
        varintPFORMeta dm; memset(&dm, 0, sizeof(dm));
        r[3] = w; r[4] = varintPFORDecode(buf, back, &dm); r[5] = back[n / 2];
        w = varintDictEncode(buf, xs, n);
        r[6] = w; r[7] = w ? varintDictDecodeInto(buf, w, back, n) : 0;
        w = varintRLEEncodeWithHeader(buf, xs, n, NULL);
        r[8] = w; r[9] = varintRLEDecodeWithHeader(buf, back, n);
        w = varintAdaptiveEncode(buf, xs, n, NULL);
        r[10] = w; r[11] = varintAdaptiveDecode(buf, back, n, NULL); r[12] = back[0];
        double dv[128], db[128];
        for (size_t i = 0; i < n; i++) dv[i] = DIN[(i + (size_t)in * 7) % N] * (double)(in + 1);
        for (int prec = 0; prec < 4; prec++) {
            w = varintFloatEncode(buf, dv, n, (varintFloatPrecision)prec, (varintFloatEncodingMode)(prec % 3));
            uint64_t h = 1469598103934665603ULL;
            for (size_t i = 0; i < w; i++) h = (h ^ buf[i]) * 1099511628211ULL;
            r[13] = r[13] * 31 + h + w;
            r[14] = r[14] * 31 + varintFloatDecode(buf, n, db);
            memcpy(&h, &db[n - 1], 8);
            r[15] = r[15] * 31 + h;
        }
        at = put_u64s(o, at, r, 16);
    }
    return at;
}
static const struct { const char *name; callfn fn; } CALLS[] = {
    {"tagged", c_tagged}, {"external", c_ext}, {"chained", c_chained}, {"delta", c_delta}, {"for", c_for},
    {"pfor", c_pfor}, {"group", c_group}, {"dict", c_dict}, {"rle", c_rle}, {"elias", c_elias},
    {"bp128", c_bp}, {"float", c_float}, {"adaptive", c_adaptive}, {"packed", c_packed},
    {"bitstream", c_bitstream}, {"adaptive_big", c_adaptive_big}, {"bitmap_obj", c_bitmap_obj}, {"readers", c_readers},
    {"scalar_slab", c_scalar_slab}, {"small", c_small}, {"shared", c_shared}};
#define NCALLS (sizeof(CALLS) / sizeof(CALLS[0]))

static pthread_barrier_t bar;
static int nthreads, rounds;
static const char *prefix;

static void log_call(int t, long seq, const char *phase, int call, int in, const uint8_t *out, size_t n) {
    uint64_t h = 1469598103934665603ULL;
    for (size_t i = 0; i < n; i++) h = (h ^ out[i]) * 1099511628211ULL;
    ev_begin(phase);
    ev_int("t", t);
    ev_int("seq", seq);
    ev_str("api", CALLS[call].name);
    ev_int("input", in);
    if (!strcmp(phase, "Begin")) {
        ev_end();
        return;
    }
    ev_int("len", (long long)n);
    ev_limbs("digest", h);
    ev_bytes("head", out, n < 24 ? n : 24);
    ev_end();
}

/* spin barrier: releases all threads within tens of nanoseconds of each other
 * (a futex wake-up staggers them by microseconds), so that the FIRST call of
 * every codec in the process is made by all threads at once: lazily built
 * shared state is caught while it is being built */
static long spin_arrived;
static void spin_barrier(long generation) {
    __atomic_add_fetch(&spin_arrived, 1, __ATOMIC_SEQ_CST);
    while (__atomic_load_n(&spin_arrived, __ATOMIC_SEQ_CST) < generation * nthreads) {
    }
}

static void *worker(void *arg) {
    int t = (int)(intptr_t)arg;
    tl_tid = t;
    char path[512];
    snprintf(path, sizeof(path), "%s-t%02d.ndjson", prefix, t);
    tr_tls = fopen(path, "w");
    uint8_t *out = malloc(1 << 16); /* private output */
    long seq = 0;
    /* cold start: no library call has been made in this process yet; every
     * codec's first call is made by all threads simultaneously, on inputs
     * that differ per thread */
    for (size_t c = 0; c + 1 < NCALLS; c++) { /* all but "shared" (last), whose objects do not exist yet */
        int in = (t + (int)c) % NIN;
        spin_barrier((long)c + 1);
        log_call(t, ++seq, "Begin", (int)c, in, NULL, 0);
        size_t n = CALLS[c].fn(in, out, 1 << 16);
        log_call(t, ++seq, "End", (int)c, in, out, n);
    }
    pthread_barrier_wait(&bar);
    if (t == 0) {
        build_shared();
    }
    for (int r = 0; r < rounds; r++) {
        pthread_barrier_wait(&bar); /* release the burst together */
        for (size_t c = 0; c < NCALLS; c++) {
            int call = (int)((c + (size_t)t + (size_t)r) % NCALLS); /* different threads, different codecs at once */
            int in = (t + r) % NIN;
            if (r % 2) { call = (int)c; in = r % NIN; }            /* ... and the same codec on the same input */
            log_call(t, ++seq, "Begin", call, in, NULL, 0);
            size_t n = CALLS[call].fn(in, out, 1 << 16);
            log_call(t, ++seq, "End", call, in, out, n);
        }
    }
    fclose(tr_tls);
    free(out);
    return NULL;
}

int main(int argc, char **argv) {
    if (argc < 4) {
        fprintf(stderr, "usage: %s nthreads rounds out-prefix\n", argv[0]);
        return 2;
    }
    nthreads = atoi(argv[1]);
    rounds = atoi(argv[2]);
    prefix = argv[3];
    rng_seed(env_seed());
    for (int k = 0; k < NIN; k++) {
        for (int i = 0; i < N; i++) {
            IN[k][i] = k == 0   ? 1000 + (uint64_t)(i % 9)
                       : k == 1 ? 50000 + (uint64_t)i * 3
                       : k == 2 ? rng_u64()
                       : k == 3 ? (uint64_t)i * 2
                       : k == 4 ? 100 + (rng_u64() % 200) + (i % 50 == 49 ? 1ULL << 40 : 0)
                                : rng_anywidth();
        }
    }
    big_init();
    for (int i = 0; i < N; i++) DIN[i] = 20.0 + (double)(rng_u64() % 1000) / 37.0;
    pthread_barrier_init(&bar, NULL, (unsigned)nthreads);
    pthread_t th[64];
    for (int t = 0; t < nthreads; t++) pthread_create(&th[t], NULL, worker, (void *)(intptr_t)t);
    for (int t = 0; t < nthreads; t++) pthread_join(th[t], NULL);
    /* sequential reference, AFTER the threads: a warm-up before them would
     * finish any lazy initialisation single-threaded and hide it */
    char path[512];
    snprintf(path, sizeof(path), "%s-alone.ndjson", prefix);
    tr_tls = fopen(path, "w");
    uint8_t *out = malloc(1 << 16);
    long seq = 0;
    for (size_t c = 0; c < NCALLS; c++) {
        for (int in = 0; in < NIN; in++) {
            size_t n = CALLS[c].fn(in, out, 1 << 16);
            log_call(-1, ++seq, "Alone", (int)c, in, out, n);
        }
    }
    fclose(tr_tls);
    free(out);
    return 0;
}
