#define BS_BITS 8
#include "bs_inst.inc"
