--------------------------- MODULE DimensionMath ---------------------------
(***************************************************************************)
(* The packed (rows, cols) form of varintDimension, decided by Apalache    *)
(* over symbolic integers for EVERY pair the format supports (both         *)
(* coordinates below 2^32; Dimension.tla / DimensionModel.tla decide the   *)
(* same statements with TLC at the byte-width boundaries):                 *)
(* the level d is the smallest one with max(rows, cols) < 16^d, the packed *)
(* value rows * 16^d + cols fits 64 bits, unpacking at level d returns the *)
(* pair, and a pair with a coordinate of 2^32 or more is refused.          *)
(***************************************************************************)
EXTENDS Integers

VARIABLES
  \* @type: Int;
  r,
  \* @type: Int;
  c

TwoTo64 == 18446744073709551616
\* @type: (Int) => Int;
P16(d) == CASE d = 1 -> 16 [] d = 2 -> 256 [] d = 3 -> 4096 [] d = 4 -> 65536 [] d = 5 -> 1048576
            [] d = 6 -> 16777216 [] d = 7 -> 268435456 [] d = 8 -> 4294967296 [] OTHER -> 1

Max2(x, y) == IF x > y THEN x ELSE y
\* smallest level holding m; 9 = refused
\* @type: (Int) => Int;
Level(m) == IF m < P16(1) THEN 1 ELSE IF m < P16(2) THEN 2 ELSE IF m < P16(3) THEN 3 ELSE IF m < P16(4) THEN 4
            ELSE IF m < P16(5) THEN 5 ELSE IF m < P16(6) THEN 6 ELSE IF m < P16(7) THEN 7
            ELSE IF m < P16(8) THEN 8 ELSE 9
PackOK(rr, cc) == Level(Max2(rr, cc)) <= 8
Packed(rr, cc) == rr * P16(Level(Max2(rr, cc))) + cc
UnpackRow(p, d) == p \div P16(d)
UnpackCol(p, d) == p % P16(d)

Init == r \in 0..(TwoTo64 - 1) /\ c \in 0..(TwoTo64 - 1)
Next == UNCHANGED <<r, c>>

PackInv ==
  LET d == Level(Max2(r, c)) IN
  /\ PackOK(r, c) <=> (r < P16(8) /\ c < P16(8))
  /\ PackOK(r, c) =>
       /\ Packed(r, c) >= 0 /\ Packed(r, c) < TwoTo64
       /\ UnpackRow(Packed(r, c), d) = r
       /\ UnpackCol(Packed(r, c), d) = c
       /\ (d > 1 => Max2(r, c) >= P16(d - 1))          \* minimal level
=============================================================================
