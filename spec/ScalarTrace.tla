---------------------------- MODULE ScalarTrace ----------------------------
(***************************************************************************)
(* Trace specification for the scalar varint API (C01, C04, C05, C12, and  *)
(* the bounded tagged reader of C14).  Consumes the NDJSON log written by  *)
(* harness/drv_scalar.c (one event per public call, arguments and results  *)
(* included) and judges every event with the operators of ScalarBytes.     *)
(*                                                                         *)
(* Monitor style: every line is consumed; a mismatch prints                *)
(*    <<"REJECT", line, property, reason>>                                 *)
(* and validation continues, so one bad event never hides the rest.        *)
(* Reason "H:..." marks a harness/binding inconsistency (reported as a     *)
(* broken run, not as a violation).                                        *)
(*                                                                         *)
(* State: l (cursor) and slot (the stored varint of the in-place-add       *)
(* machine: family, width the caller believes, bytes).                     *)
(***************************************************************************)
EXTENDS ScalarBytes, SequencesExt, TLC, Json, IOUtils

Tr == ndJsonDeserialize(IOEnv.TRACE)
NT == Len(Tr)

VARIABLES l, slot
vars == <<l, slot>>

NoSlot == [fam |-> "none", w |-> 0, off |-> 0, bytes |-> <<>>]
Pat(f, k) == (f + 37 * k) % 256                   \* fill pattern of the driver's window, k 0-based
Bad(cond, prop, why) == IF cond THEN {} ELSE {<<prop, why>>}

(******************************* round trips *******************************)
RTFails(ev) ==
  LET v == ev.v  fam == ev.fam  n == ev.pret  st == ev.start
      legal == Accepts(fam, v) /\ (ev.w > 0 => FixedLegal(fam, v, ev.w))
      enc == IF ev.w > 0 THEN EncFixed(fam, v, ev.w) ELSE SEnc(fam, v)
      img == IF ev.img = "rev" THEN SplitEncReversed(fam, v) ELSE enc
      inwin == n >= 0 /\ st >= 0 /\ st + n <= Len(ev.win)
  IN IF ~legal THEN {<<"C01", "H:driver issued a call outside the API's domain">>}
     ELSE
       Bad(ev.val = v, "C01", "decoded value differs from encoded value")
       \cup Bad(n \in MinLen(fam)..MaxLen(fam), "C01", "encoder length outside documented range")
       \cup Bad(ev.gret = -1 \/ ev.gret = n, "C01", "decoder length differs from encoder length")
       \cup Bad(ev.w = 0 \/ n = ev.w, "C01", "fixed-width encoder did not use the requested width")
       \cup Bad(inwin /\ \A k \in 0..(Len(ev.win) - 1) :
                   (k < st \/ k >= st + n) => ev.win[k + 1] = Pat(ev.f, k),
                "C01", "encoder modified a byte outside its returned length")
       \cup Bad(n = Len(img), "C04", "length is not the documented length for this value")
       \cup Bad(inwin /\ n = Len(img) /\ SubSeq(ev.win, st + 1, st + n) = img,
                "C04", "bytes differ from the documented format")

LenFails(ev) ==
  LET v == ev.v  fam == ev.fam IN
  IF ~Accepts(fam, v) THEN {<<"C01", "H:driver issued a call outside the API's domain">>}
  ELSE Bad(ev.ret = ev.pret, "C01", "length query disagrees with encoder's returned length")
       \cup Bad(ev.ret = SLen(fam, v), "C04", "length query is not the documented length")
       \cup Bad(ev.b < 0 \/ LenFromFirst(fam, ev.b) = ev.ret, "C04",
                "length read from type byte is not the documented length")

SignedFails(ev) ==
  IF ~SignedFits(ev.x, ev.w) THEN {<<"C01", "H:value not representable in field">>}
  ELSE Bad(ev.restored = ev.x, "C01", "signed helper did not restore the value")

(******************************** ordering *********************************)
RECURSIVE CmpTuple(_, _, _)
CmpTuple(a, b, k) == IF k > Len(a) THEN 0
                     ELSE IF Cmp(a[k], b[k]) # 0 THEN Cmp(a[k], b[k]) ELSE CmpTuple(a, b, k + 1)
CmpFails(ev) ==
  LET want == CmpTuple(ev.a, ev.b, 1) IN
  Bad(Len(ev.a) = Len(ev.b) /\ Memcmp(ev.ka, ev.kb) = ev.sign, "C05", "H:driver memcmp disagrees with spec Memcmp")
  \cup Bad(ev.sign = want, "C05", "memcmp order of tagged keys differs from numeric order")
  \cup Bad(ev.prefix = 0, "C05", "one key is a proper prefix of a different key")
  \cup Bad((want = 0) = (ev.ka = ev.kb), "C05", "equal values <=> identical bytes violated")

(***************************** in-place add ********************************)
\* Slot(fam, v, w): the driver stored v with width w at offset off
SlotFails(ev) ==
  LET z == SubSeq(ev.bytes, ev.off + 1, Len(ev.bytes)) IN
  Bad(ev.fam \in {"tagged", "ext"} /\ SDec(ev.fam, z, ev.w) = ev.v
      /\ (ev.fam = "tagged" => TaggedLenFromFirst(z[1]) = ev.w),
      "C12", "H:initial slot content is not the value the driver announced")

\* the contract: decode, checked signed add, re-measure, conditional write
AddFails(ev, s) ==
  LET fam == ev.fam  off == ev.off  pre == ev.pre  post == ev.post
      z == SubSeq(pre, off + 1, Len(pre))
      w == IF fam = "tagged" THEN TaggedLenFromFirst(z[1]) ELSE ev.w
      old == SDec(fam, z, w)
      ovf == SAddOverflows(old, ev.amt)
      sum == Add(old, ev.amt)
      nw == SLen(fam, sum)
      grow == ev.grow = 1
      same(lo, hi) == \A k \in lo..hi : post[k] = pre[k]      \* 1-based, inclusive
  IN Bad(s.fam = fam /\ s.bytes = pre /\ s.off = off /\ (fam = "ext" => s.w = ev.w),
         "C12", "H:event does not continue the slot history")
     \cup (IF ovf
           THEN Bad(ev.ret = 0, "C12", "signed overflow not reported as width 0")
                \cup Bad(post = pre, "C12", "bytes modified although the add failed")
           ELSE IF ~grow /\ nw > w
           THEN Bad(ev.ret = nw, "C12", "no-grow add did not return the required width")
                \cup Bad(post = pre, "C12", "no-grow add modified the buffer although the sum does not fit")
           ELSE Bad(ev.ret = nw, "C12", "returned width is not the width of the stored sum")
                \cup Bad(nw <= MaxLen(fam), "C12", "grow form exceeded the family maximum length")
                \cup Bad(SubSeq(post, off + 1, off + nw) = SEnc(fam, sum), "C12", "stored bytes are not old+amount")
                \cup Bad(fam # "tagged" \/ SubSeq(post, off + 1, off + nw) = SEnc(fam, sum), "C04",
                         "an in-place add left bytes that are not the documented encoding of the stored value")
                \cup Bad(same(1, off) /\ same(off + nw + 1, Len(pre)), "C12",
                         "add modified a byte outside the stored varint")
                \cup Bad(grow \/ same(off + w + 1, Len(pre)), "C12",
                         "no-grow add modified a byte beyond the current width"))
NextSlot(ev, s) ==
  CASE ev.e = "Slot" -> [fam |-> ev.fam, w |-> ev.w, off |-> ev.off, bytes |-> ev.bytes]
    [] ev.e = "Add" ->
         LET z == SubSeq(ev.pre, ev.off + 1, Len(ev.pre))
             w == IF ev.fam = "tagged" THEN 0 ELSE ev.w
             refused == ev.ret = 0 \/ (ev.grow = 0 /\ ev.ret > ev.w /\ ev.fam = "ext")
         IN [fam |-> ev.fam, off |-> ev.off, bytes |-> ev.post,
             w |-> IF ev.fam = "tagged" THEN s.w ELSE IF refused THEN ev.w ELSE ev.ret]
    [] OTHER -> s

(************************* bounded tagged reader (C14) *********************)
BGetFails(ev) ==
  LET r == TaggedGetBounded(ev.z, ev.n) IN
  Bad(ev.ret = r.len, "C14", "bounded tagged reader returned the wrong length for a truncated input")
  \cup Bad(r.len = 0 \/ ev.val = r.val, "C14", "bounded tagged reader returned the wrong value")
  \cup Bad(ev.fault = 0, "C14", "bounded tagged reader read beyond its declared length")

(************************** Elias bits, zig-zag ****************************)
\* bit k (0-based, MSB-first within each byte) of a byte buffer
BufBit(buf, k) == ByteBit(buf[(k \div 8) + 1], 7 - (k % 8))
BitsFails(ev) ==
  LET want == IF ev.code = "gamma" THEN Gamma(ev.v) ELSE Delta(ev.v)
      n == Len(want)
  IN Bad(ev.nbits = n /\ ev.wpos = n, "C04", "Elias code length differs from the mathematical definition")
     \cup Bad(ev.qbits = n, "C04", "Elias bit-count query differs from the mathematical definition")
     \cup Bad(\A k \in 0..(8 * Len(ev.buf) - 1) : BufBit(ev.buf, k) = (IF k < n THEN want[k + 1] ELSE 0),
              "C04", "Elias bit string differs from the mathematical definition")
     \cup Bad(ev.dec = ev.v /\ ev.rpos = ev.nbits, "C02", "Elias single-value decode does not return the encoded value")
ZigZagFails(ev) ==
  Bad(ev.z = ZigZag(ev.n), "C04", "zig-zag map differs from its definition")
  \cup Bad(ev.back = ev.n, "C02", "zig-zag decode does not invert encode")

(********************************* monitor *********************************)
Fails(ev, s) ==
  CASE ev.e = "RT" -> RTFails(ev)
    [] ev.e = "Len" -> LenFails(ev)
    [] ev.e = "Signed" -> SignedFails(ev)
    [] ev.e = "Cmp" -> CmpFails(ev)
    [] ev.e = "Slot" -> SlotFails(ev)
    [] ev.e = "Add" -> AddFails(ev, s)
    [] ev.e = "BGet" -> BGetFails(ev)
    [] ev.e = "Bits" -> BitsFails(ev)
    [] ev.e = "ZigZag" -> ZigZagFails(ev)
    [] OTHER -> {<<"ANY", "H:unknown event kind">>}

Init == l = 1 /\ slot = NoSlot
Consume ==
  /\ l <= NT
  /\ LET ev == Tr[l]
         fs == Fails(ev, slot)
     IN /\ \A x \in fs : PrintT(<<"REJECT", l, x[1], x[2]>>)
        /\ slot' = NextSlot(ev, slot)
  /\ l' = l + 1
Next == Consume
Spec == Init /\ [][Next]_vars

\* reached only when every line was consumed
Done == l = NT + 1
Consumed == TLCGet("stats").diameter - 1 = NT
=============================================================================
