SPECIFICATION Spec
CONSTANTS Depth = 3
Full = FALSE
INVARIANT Inv
CHECK_DEADLOCK FALSE
