SPECIFICATION Spec
CONSTANTS N = 7
T = 3
AddRangeReplaces = TRUE
MaxDepth = 4
INVARIANTS Refines CardOK Shape
CHECK_DEADLOCK FALSE
