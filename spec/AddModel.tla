------------------------------ MODULE AddModel ------------------------------
(***************************************************************************)
(* In-place add on a stored tagged / external varint (C12) as a state      *)
(* machine over memory.  State: the slot (family, the width w the caller   *)
(* tracks, 12 bytes of memory of which the varint occupies the first       *)
(* bytes).  Action Add(grow, amt) is the documented contract: decode,      *)
(* checked signed add, re-measure, conditional write.                      *)
(*                                                                         *)
(* TLC explores all histories of adds (to depth D) from every boundary     *)
(* stored value with amounts that land exactly on / just beyond every      *)
(* documented length boundary, +-1, +-2^k and the int64 edges; invariants  *)
(* state the property on the design, and every explored transition is      *)
(* printed as an EDGE line which the C driver replays on the real code.    *)
(***************************************************************************)
EXTENDS ScalarBytes, SequencesExt, TLC

CONSTANTS D         \* history depth

Fams == {"tagged", "ext"}
MemLen == 12
Fill == [i \in 1..MemLen |-> 170]

Store(fam, v, w) == LET e == IF fam = "tagged" THEN TaggedEnc(v) ELSE ExtEncW(v, w)
                    IN [i \in 1..MemLen |-> IF i <= Len(e) THEN e[i] ELSE 170]

Boundaries(fam) == UNION {{DocMax(fam, n), Add(DocMax(fam, n), W(1))} : n \in 1..MaxLen(fam)}
                   \cup {Zero, AllOnes, PowW(63), Sub(PowW(63), W(1))}
Amounts(fam, cur) ==
  {Sub(m, cur) : m \in Boundaries(fam)}
  \cup {W(1), Neg(W(1)), W(255), Neg(W(256))}
  \cup UNION {{PowW(k), Neg(PowW(k))} : k \in {8, 16, 31, 32, 62}}
  \cup {PowW(63), Sub(PowW(63), W(1))}

VARIABLES fam, w, mem, depth
vars == <<fam, w, mem, depth>>

CurW == IF fam = "tagged" THEN TaggedLenFromFirst(mem[1]) ELSE w
Cur == SDec(fam, mem, CurW)

Init == /\ fam \in Fams
        /\ \E v \in Boundaries(fam) :
             /\ w \in (IF fam = "tagged" THEN {TaggedLen(v)} ELSE {ByteWidth(v), 8} \cup {x \in {ByteWidth(v) + 1} : x <= 8})
             /\ mem = Store(fam, v, w)
        /\ depth = 0

AddAct(grow, amt) ==
  LET old == Cur
      ovf == SAddOverflows(old, amt)
      sum == Add(old, amt)
      nw == SLen(fam, sum)
      enc == SEnc(fam, sum)
  IN /\ depth < D
     /\ PrintT(<<"EDGE", fam, IF grow THEN 1 ELSE 0, CurW, old, amt>>)
     /\ depth' = depth + 1
     /\ fam' = fam
     /\ IF ovf THEN mem' = mem /\ w' = w
        ELSE IF ~grow /\ nw > CurW THEN mem' = mem /\ w' = w
        ELSE /\ mem' = [i \in 1..MemLen |-> IF i <= nw THEN enc[i] ELSE mem[i]]
             /\ w' = nw

Next == \E grow \in BOOLEAN : \E amt \in Amounts(fam, Cur) : AddAct(grow, amt)
Spec == Init /\ [][Next]_vars

(* the property, on the design *)
WidthBounded == CurW \in 1..MaxLen(fam)
SlotDecodes == SLen(fam, Cur) <= CurW        \* what is stored fits the width the caller tracks
\* no add ever touches memory beyond the family's maximum length
Isolation == [][\A k \in 1..MemLen : k > MaxLen(fam) => mem'[k] = mem[k]]_vars
=============================================================================
