--------------------------- MODULE DimensionModel ---------------------------
(***************************************************************************)
(* Checks the dimension formats on the specification for every pair of     *)
(* row/column counts at the byte-width boundaries (all 9 x 8 = 72 width    *)
(* combinations): the pair byte decodes to the widths it was built from,   *)
(* the header length is the sum of the widths, the header bytes decode to  *)
(* the counts, the packed integer unpacks to the pair; and prints every    *)
(* pair (plus cell coordinates) as a DIM line for the driver.              *)
(***************************************************************************)
EXTENDS Dimension, TLC, FiniteSets

ByteLo(k) == IF k = 1 THEN W(1) ELSE [i \in 1..8 |-> IF i = k THEN 1 ELSE 0]      \* 256^(k-1)
ByteHi(k) == [i \in 1..8 |-> IF i <= k THEN 255 ELSE 0]                          \* 256^k - 1
RowCounts == {Zero} \cup UNION {{ByteLo(k), ByteHi(k)} : k \in 1..8}
ColCounts == UNION {{ByteLo(k), ByteHi(k)} : k \in 1..8}

VARIABLES rows, cols, stage
vars == <<rows, cols, stage>>
Init == rows = Zero /\ cols = W(1) /\ stage = 0
PickRows == stage = 0 /\ stage' = 1 /\ rows' \in RowCounts /\ cols' = cols
PickCols == stage = 1 /\ stage' = 2 /\ cols' \in ColCounts /\ rows' = rows
            /\ PrintT(<<"DIM", rows, cols'>>)
Next == PickRows \/ PickCols
Spec == Init /\ [][Next]_vars

PairOK == LET d == PairByte(rows, cols, 0) IN
          /\ d \in 0..255
          /\ PairRowWidth(d) = RowWidth(rows) /\ PairColWidth(d) = ColWidth(cols)
          /\ Len(HeaderBytes(rows, cols)) = HeaderLen(rows, cols)
          /\ FromLE(SubSeq(HeaderBytes(rows, cols), 1, RowWidth(rows))) = rows
          /\ FromLE(SubSeq(HeaderBytes(rows, cols), RowWidth(rows) + 1, HeaderLen(rows, cols))) = cols
\* all 72 width combinations are reached
Widths == {<<RowWidth(r), ColWidth(c)>> : r \in RowCounts, c \in ColCounts}
ASSUME Cardinality(Widths) = 72
=============================================================================
