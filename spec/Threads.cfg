SPECIFICATION Spec
CONSTANTS N = 3
Args = {1, 2, 3}
SharedScratch = FALSE
CallsPerThread = 2
INVARIANT SameAsAlone
CHECK_DEADLOCK FALSE
