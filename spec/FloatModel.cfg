SPECIFICATION Spec
CONSTANTS EB = 3
MB = 6
Reduced = {2, 3, 4}
CarryHandled = TRUE
DB = 2
SpanAfterRounding = TRUE
INVARIANT Contract
INVARIANT ArrayContract
CHECK_DEADLOCK FALSE
