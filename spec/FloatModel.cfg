SPECIFICATION Spec
CONSTANTS EB = 3
MB = 6
Reduced = {2, 3, 4}
CarryHandled = TRUE
INVARIANT Contract
CHECK_DEADLOCK FALSE
