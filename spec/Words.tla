------------------------------- MODULE Words -------------------------------
(***************************************************************************)
(* Unsigned 64-bit words for TLC.  TLC integers are 32-bit, so a word is a *)
(* sequence of 8 bytes, LITTLE-endian (w[1] is the least significant).     *)
(* Everything the varint formats need is defined on that representation:   *)
(* comparison, add/sub with carry, byte width, bit access, 7-bit groups.   *)
(* Small natives (< 2^31) convert both ways.                               *)
(***************************************************************************)
EXTENDS Naturals, Integers, Sequences

Byte == 0..255
Zero == <<0,0,0,0,0,0,0,0>>
AllOnes == <<255,255,255,255,255,255,255,255>>
IsWord(w) == Len(w) = 8 /\ \A i \in 1..8 : w[i] \in Byte

P256 == <<1, 256, 65536, 16777216>>
Pow2 == <<1,2,4,8,16,32,64,128,256>>           \* Pow2[k+1] = 2^k, k <= 8

\* native (0 .. 2^31-1) -> word
W(n) == [i \in 1..8 |-> IF i <= 4 THEN (n \div P256[i]) % 256 ELSE 0]

\* highest non-zero byte (1 for zero): "bytes with bits set", varintExternal.h
ByteWidth(w) == IF w[8] # 0 THEN 8 ELSE IF w[7] # 0 THEN 7 ELSE IF w[6] # 0 THEN 6
                ELSE IF w[5] # 0 THEN 5 ELSE IF w[4] # 0 THEN 4 ELSE IF w[3] # 0 THEN 3
                ELSE IF w[2] # 0 THEN 2 ELSE 1

\* low three bytes as a native
Low3(w) == w[1] + 256 * w[2] + 65536 * w[3]
\* fits a non-negative TLC int
Fits31(w) == w[8] = 0 /\ w[7] = 0 /\ w[6] = 0 /\ w[5] = 0 /\ w[4] < 128
N(w) == Low3(w) + 16777216 * w[4]               \* precondition Fits31(w)

\* -1 / 0 / 1, most significant byte first
Cmp(a, b) ==
  LET c[i \in 0..8] == IF i = 0 THEN 0
                       ELSE IF a[i] < b[i] THEN -1 ELSE IF a[i] > b[i] THEN 1 ELSE c[i-1]
  IN c[8]
Leq(a, b) == Cmp(a, b) <= 0
Lt(a, b)  == Cmp(a, b) < 0
LeqN(a, n) == Fits31(a) /\ N(a) <= n             \* word <= native

\* a - b (mod 2^64) and borrow-out
SubB(a, b) ==
  LET bor[i \in 0..8] == IF i = 0 THEN 0 ELSE IF a[i] - b[i] - bor[i-1] < 0 THEN 1 ELSE 0
  IN [d |-> [i \in 1..8 |-> (a[i] - b[i] - bor[i-1] + 256) % 256], borrow |-> bor[8]]
Sub(a, b) == SubB(a, b).d
\* a + b (mod 2^64) and carry-out
AddC(a, b) ==
  LET car[i \in 0..8] == IF i = 0 THEN 0 ELSE IF a[i] + b[i] + car[i-1] > 255 THEN 1 ELSE 0
  IN [s |-> [i \in 1..8 |-> (a[i] + b[i] + car[i-1]) % 256], carry |-> car[8]]
Add(a, b) == AddC(a, b).s
Neg(a) == Sub(Zero, a)

\* two's complement view
IsNeg(a) == a[8] >= 128
\* signed addition overflows iff operands have equal sign and the sum's sign differs
SAddOverflows(a, b) == IsNeg(a) = IsNeg(b) /\ IsNeg(Add(a, b)) # IsNeg(a)
Abs(a) == IF IsNeg(a) THEN Neg(a) ELSE a

\* bit k (0 = least significant), k in 0..63
BitAt(w, k) == (w[(k \div 8) + 1] \div Pow2[(k % 8) + 1]) % 2
\* number of significant bits (0 for zero)
BitLen(w) ==
  LET bw == ByteWidth(w)
      top == w[bw]
      tb == IF top >= 128 THEN 8 ELSE IF top >= 64 THEN 7 ELSE IF top >= 32 THEN 6
            ELSE IF top >= 16 THEN 5 ELSE IF top >= 8 THEN 4 ELSE IF top >= 4 THEN 3
            ELSE IF top >= 2 THEN 2 ELSE IF top >= 1 THEN 1 ELSE 0
  IN 8 * (bw - 1) + tb
\* value of bits [k, k+n) as a native, n <= 30
BitsAt(w, k, n) ==
  LET acc[j \in 0..n] == IF j = 0 THEN 0
                         ELSE 2 * acc[j-1] + (IF k + n - j <= 63 THEN BitAt(w, k + n - j) ELSE 0)
  IN acc[n]
\* flip / set bit k
SetBit(w, k, b) == [i \in 1..8 |-> IF i = (k \div 8) + 1
                                   THEN w[i] - BitAt(w, k) * Pow2[(k % 8) + 1] + b * Pow2[(k % 8) + 1]
                                   ELSE w[i]]
\* w >> 8k (bytes)
ShrBytes(w, k) == [i \in 1..8 |-> IF i + k <= 8 THEN w[i + k] ELSE 0]

\* byte slices
LEBytes(w, n) == [i \in 1..n |-> w[i]]                 \* low n bytes, little-endian
BEBytes(w, n) == [i \in 1..n |-> w[n + 1 - i]]         \* low n bytes, big-endian
FromLE(s) == [i \in 1..8 |-> IF i <= Len(s) THEN s[i] ELSE 0]
FromBE(s) == [i \in 1..8 |-> IF i <= Len(s) THEN s[Len(s) + 1 - i] ELSE 0]
Rev(s) == [i \in 1..Len(s) |-> s[Len(s) + 1 - i]]

\* lexicographic comparison of byte strings as memcmp + length tiebreak would
\* see them when both are compared over min length first (C library memcmp on
\* equal-length keys; for unequal lengths the shorter is a prefix => smaller)
RECURSIVE MemcmpFrom(_, _, _)
MemcmpFrom(a, b, i) ==
  IF i > Len(a) \/ i > Len(b)
  THEN (IF Len(a) = Len(b) THEN 0 ELSE IF Len(a) < Len(b) THEN -1 ELSE 1)
  ELSE IF a[i] < b[i] THEN -1 ELSE IF a[i] > b[i] THEN 1 ELSE MemcmpFrom(a, b, i + 1)
Memcmp(a, b) == MemcmpFrom(a, b, 1)

\* 2^k as a word, k in 0..63
PowW(k) == [i \in 1..8 |-> IF i = (k \div 8) + 1 THEN Pow2[(k % 8) + 1] ELSE 0]
=============================================================================
