----------------------------- MODULE BitmapSet -----------------------------
(***************************************************************************)
(* The bitmap as a mathematical set of 16-bit integers (C08): the abstract *)
(* machine every history of the real object must refine, whatever          *)
(* container holds the data.  Sets are IntervalSet values.  An operation   *)
(* is a record [op, a, b, k]; k names a fixed second operand.              *)
(***************************************************************************)
EXTENDS IntervalSet, Integers

\* fixed second operands of the binary operations and bulk-add lists
Operands == [ K0 |-> <<>>,
              K1 |-> << <<0, 5000>> >>,
              K2 |-> << <<4000, 4200>>, <<65535, 65536>> >>,
              K3 |-> [i \in 1..60 |-> <<10 * i, 10 * i + 1>>] \o << <<20000, 24096>> >>,
              K4 |-> << <<1, 4097>> >>,
              \* small / skewed operands and operands whose edges meet the builders' members;
              \* a name ending in "r" is built by the driver with AddRange (run container)
              K5 |-> << <<100, 300>> >>,
              K5r |-> << <<100, 300>> >>,
              K1r |-> << <<0, 5000>> >>,
              K6 |-> << <<100, 101>> >>,
              K7 |-> << <<99, 101>>, <<299, 301>> >>,
              K8 |-> << <<0, 4095>> >>,
              K9 |-> [i \in 1..130 |-> <<500 * i, 500 * i + 1>>],
              \* operands of the fault-injection matrix (drv_alloc): each overlaps every left-operand construction
              KA |-> << <<5, 12>>, <<9998, 10003>>, <<19998, 20002>> >>,
              KB |-> << <<0, 5000>>, <<9000, 11000>> >>,
              KRr |-> << <<9000, 16000>> >> ]
Lists == [ L1 |-> <<5, 3, 5, 70, 3>>, L2 |-> <<65535, 0, 65535>>, L3 |-> [i \in 1..40 |-> 4090 + i],
           \* non-decreasing with repeats, all equal, repeats at both ends, descending, a single value
           L4 |-> <<3, 7, 7, 10>>, L5 |-> <<9, 9, 9>>, L6 |-> <<0, 0, 5, 65535, 65535>>, L7 |-> <<9, 7, 3>>,
           L8 |-> <<100>> ]

Mutators == {"Add", "Remove", "AddRange", "RemoveRange", "Clear", "AddMany"}
Binary == {"Or", "And", "Xor", "AndNot", "ROr", "RAnd", "RXor", "RAndNot"}
Neutral == {"Clone", "Codec", "Optimize", "AsRuns"}   \* Optimize may change the container, never the set

\* [set |-> new content, ret |-> what a mutating call must report (TRUE if it reports nothing)]
Apply(S, o) ==
  CASE o.op = "Add" -> [set |-> AddIv(S, o.a, o.a + 1), ret |-> ~Has(S, o.a)]
    [] o.op = "Remove" -> [set |-> RemIv(S, o.a, o.a + 1), ret |-> Has(S, o.a)]
    [] o.op = "AddRange" -> [set |-> AddIv(S, o.a, o.b), ret |-> TRUE]          \* half-open; no-op when a >= b
    [] o.op = "RemoveRange" -> [set |-> RemIv(S, o.a, o.b), ret |-> TRUE]
    [] o.op = "Clear" -> [set |-> Empty, ret |-> TRUE]
    [] o.op = "AddMany" -> [set |-> Union(S, FromSeq(Lists[o.k])), ret |-> TRUE]
    [] o.op \in Neutral -> [set |-> S, ret |-> TRUE]
    [] o.op \in {"Or", "ROr"} -> [set |-> Union(S, Operands[o.k]), ret |-> TRUE]
    [] o.op \in {"And", "RAnd"} -> [set |-> Inter(S, Operands[o.k]), ret |-> TRUE]
    [] o.op \in {"Xor", "RXor"} -> [set |-> SymDiffIv(S, Operands[o.k]), ret |-> TRUE]
    [] o.op = "AndNot" -> [set |-> Diff(S, Operands[o.k]), ret |-> TRUE]
    [] o.op = "RAndNot" -> [set |-> Diff(Operands[o.k], S), ret |-> TRUE]
=============================================================================
