SPECIFICATION Spec
INVARIANTS RoundTrip LenAgrees FixedRoundTrip Monotone Shortest Injective TaggedOrder TaggedPrefixFree BoundedReader ZigZagRT
CHECK_DEADLOCK FALSE
