------------------------------- MODULE Packed -------------------------------
(***************************************************************************)
(* Packed bit arrays (varintPacked.h) on a little-endian machine: the      *)
(* storage is a flat bit string, bit g = bit (g mod 8) of byte g div 8,    *)
(* element i occupies bits [i*B, (i+1)*B), least significant first -- the  *)
(* slot type does not change the layout.  It matters for admissibility     *)
(* (an element never spans more than two slots) and for the footprint      *)
(* (only the slots an element occupies may be accessed).                   *)
(***************************************************************************)
EXTENDS Integers, Sequences, SequencesExt

RECURSIVE Gcd(_, _)
Gcd(a, b) == IF b = 0 THEN a ELSE Gcd(b, a % b)
\* every start offset is a multiple of gcd(bits, slot); the worst one is slot - gcd
Admissible(bits, slot) == (slot - Gcd(bits, slot)) + bits <= 2 * slot
\* "we can never store a packed value inside just one slot": precondition of the always-two-slot path
CompactOK(bits, slot) == Admissible(bits, slot) /\ bits > slot

P2s == <<1, 2, 4, 8, 16, 32, 64, 128>>
MemBit(mem, g) == (mem[(g \div 8) + 1] \div P2s[(g % 8) + 1]) % 2
\* element i (0-based) as a list of B bits, least significant first
ElemBits(mem, B, i) == [k \in 1..B |-> MemBit(mem, i * B + k - 1)]
\* a value given as 4 little-endian bytes (values are < 2^32)
ValBits(v, B) == [k \in 1..B |-> (v[((k - 1) \div 8) + 1] \div P2s[((k - 1) % 8) + 1]) % 2]
\* compare bit lists as numbers: most significant difference decides
RECURSIVE CmpBits(_, _, _)
CmpBits(a, b, k) == IF k = 0 THEN 0 ELSE IF a[k] < b[k] THEN -1 ELSE IF a[k] > b[k] THEN 1 ELSE CmpBits(a, b, k - 1)
LtBits(a, b) == CmpBits(a, b, Len(a)) < 0
\* a + b and a div 2 on bit lists (LSB first), result truncated to Len(a) bits with carry-out
AddBits(a, b) == LET c[k \in 0..Len(a)] == IF k = 0 THEN 0 ELSE (a[k] + b[k] + c[k-1]) \div 2
                 IN [sum |-> [k \in 1..Len(a) |-> (a[k] + b[k] + c[k-1]) % 2], carry |-> c[Len(a)]]
HalfBits(a) == [k \in 1..Len(a) |-> IF k < Len(a) THEN a[k + 1] ELSE 0]

\* the contract of Set on the whole image: element i becomes val, every other bit is unchanged
SetOK(pre, post, B, i, valbits) ==
  /\ Len(post) = Len(pre)
  /\ \A g \in 0..(8 * Len(pre) - 1) :
        MemBit(post, g) = IF i * B <= g /\ g < (i + 1) * B THEN valbits[g - i * B + 1] ELSE MemBit(pre, g)

\* sorted layer on sequences of bit lists
LowerBound(xs, v) == LET idx == {k \in 1..Len(xs) : ~LtBits(xs[k], v)} IN
                     IF idx = {} THEN Len(xs) ELSE (CHOOSE k \in idx : \A j \in idx : k <= j) - 1      \* 0-based
IsSortedBits(xs) == \A k \in 1..(Len(xs) - 1) : ~LtBits(xs[k + 1], xs[k])
=============================================================================
