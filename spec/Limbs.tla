------------------------------- MODULE Limbs -------------------------------
(***************************************************************************)
(* 64-bit values as limb triples <<hi16, mid24, lo24>> (most significant   *)
(* first, so tuple order is numeric order) for the bulk-array events:      *)
(* TLC integers are 32-bit.  Comparison, subtraction, byte/bit width,      *)
(* tagged length, folds over sequences (iterative: FoldLeft).              *)
(***************************************************************************)
EXTENDS Naturals, Integers, Sequences, SequencesExt

B24 == 16777216
LZero == <<0, 0, 0>>
LMax == <<65535, B24 - 1, B24 - 1>>
LN(n) == <<0, n \div B24, n % B24>>                       \* native < 2^31 -> limbs
LIsNative(a) == a[1] = 0 /\ a[2] < 128
LNat(a) == a[2] * B24 + a[3]                               \* precondition LIsNative(a)

LLt(a, b) == \/ a[1] < b[1]
             \/ a[1] = b[1] /\ a[2] < b[2]
             \/ a[1] = b[1] /\ a[2] = b[2] /\ a[3] < b[3]
LLeq(a, b) == a = b \/ LLt(a, b)
LMin2(a, b) == IF LLt(b, a) THEN b ELSE a
LMax2(a, b) == IF LLt(a, b) THEN b ELSE a
\* a - b mod 2^64
LSub(a, b) == LET d3 == a[3] - b[3]
                  b3 == IF d3 < 0 THEN 1 ELSE 0
                  d2 == a[2] - b[2] - b3
                  b2 == IF d2 < 0 THEN 1 ELSE 0
                  d1 == a[1] - b[1] - b2
              IN << (d1 + 65536) % 65536, (d2 + B24) % B24, (d3 + B24) % B24 >>
\* a + b mod 2^64
LAdd(a, b) == LET s3 == a[3] + b[3]
                  c3 == s3 \div B24
                  s2 == a[2] + b[2] + c3
                  c2 == s2 \div B24
              IN << (a[1] + b[1] + c2) % 65536, s2 % B24, s3 % B24 >>
LByteWidth(a) == IF a[1] >= 256 THEN 8 ELSE IF a[1] > 0 THEN 7
                 ELSE IF a[2] >= 65536 THEN 6 ELSE IF a[2] >= 256 THEN 5 ELSE IF a[2] > 0 THEN 4
                 ELSE IF a[3] >= 65536 THEN 3 ELSE IF a[3] >= 256 THEN 2 ELSE 1
\* bits of a native < 2^24
RECURSIVE BL24(_)
BL24(n) == IF n = 0 THEN 0 ELSE 1 + BL24(n \div 2)
LBitLen(a) == IF a[1] > 0 THEN 48 + BL24(a[1]) ELSE IF a[2] > 0 THEN 24 + BL24(a[2]) ELSE BL24(a[3])
\* sqlite4 tagged length (ScalarBytes!TaggedLen on limbs)
LTaggedLen(a) == IF a[1] = 0 /\ a[2] = 0 /\ a[3] <= 240 THEN 1
                 ELSE IF a[1] = 0 /\ a[2] = 0 /\ a[3] <= 2287 THEN 2
                 ELSE IF a[1] = 0 /\ a[2] = 0 /\ a[3] <= 67823 THEN 3
                 ELSE IF LByteWidth(a) <= 3 THEN 4 ELSE LByteWidth(a) + 1
\* two's complement sign
LIsNeg(a) == a[1] >= 32768

LSeqMin(xs) == FoldLeft(LMin2, xs[1], xs)
LSeqMax(xs) == FoldLeft(LMax2, xs[1], xs)
NonDecreasing(xs) == \A i \in 1..(Len(xs) - 1) : LLeq(xs[i], xs[i + 1])
StrictlyIncreasing(xs) == \A i \in 1..(Len(xs) - 1) : LLt(xs[i], xs[i + 1])
\* number of maximal runs of equal neighbours
RunCount(xs) == IF Len(xs) = 0 THEN 0
                ELSE 1 + FoldLeft(LAMBDA acc, i : IF xs[i] # xs[i - 1] THEN acc + 1 ELSE acc,
                                  0, [k \in 1..(Len(xs) - 1) |-> k + 1])
\* Elias code lengths (mathematical definition)
GammaBits(a) == 2 * (LBitLen(a) - 1) + 1
DeltaBits(a) == LET L == LBitLen(a) IN 2 * (BL24(L) - 1) + 1 + (L - 1)
SumOver(F(_), xs) == FoldLeft(LAMBDA acc, x : acc + F(x), 0, xs)
\* bytes of a limb value, little-endian, w bytes
LByte(a, k) == \* byte k (0 = least significant)
  IF k < 3 THEN (a[3] \div (IF k = 0 THEN 1 ELSE IF k = 1 THEN 256 ELSE 65536)) % 256
  ELSE IF k < 6 THEN (a[2] \div (IF k = 3 THEN 1 ELSE IF k = 4 THEN 256 ELSE 65536)) % 256
  ELSE (a[1] \div (IF k = 6 THEN 1 ELSE 256)) % 256
LLE(a, w) == [i \in 1..w |-> LByte(a, i - 1)]
LBE(a, w) == [i \in 1..w |-> LByte(a, w - i)]
LTaggedEnc(a) ==
  LET n == LTaggedLen(a) IN
  CASE n = 1 -> << a[3] >>
    [] n = 2 -> << 241 + ((a[3] - 240) \div 256), (a[3] - 240) % 256 >>
    [] n = 3 -> << 249, (a[3] - 2288) \div 256, (a[3] - 2288) % 256 >>
    [] OTHER -> << 246 + n >> \o LBE(a, n - 1)
=============================================================================
