---------------------------- MODULE TaggedMath ----------------------------
(***************************************************************************)
(* Unbounded lemmas about the tagged (sqlite4) format, discharged by        *)
(* Apalache over SMT integers for ALL values 0 .. 2^64-1 (TLC decides the   *)
(* same statements only on the boundary domain):                           *)
(*   OrderInv      a < b  =>  Key(a) < Key(b) and TLen(a) <= TLen(b)        *)
(*                 (memcmp order = numeric order, lengths monotone; strict  *)
(*                 monotonicity also gives injectivity: equal bytes <=>     *)
(*                 equal values)                                            *)
(*   RoundTripInv  DecKey(Key(a)) = a and the first byte announces TLen(a)  *)
(*   RangeInv      the key fits nine bytes                                  *)
(* Key(v) is the encoding's bytes left-justified in nine bytes and read as  *)
(* one big-endian number: because the first byte determines the length the  *)
(* code is prefix-free, and memcmp on the byte strings orders exactly as <  *)
(* on the keys.  Key is piecewise linear in v (the two-byte form            *)
(* 241 + (v-240) div 256, (v-240) mod 256 read big-endian is                *)
(* 241*256 + v - 240), which is what makes the SMT queries instant.         *)
(* ScalarModel.tla checks with TLC that the BYTES of this arithmetic form   *)
(* are ScalarBytes!TaggedEnc on the whole boundary domain (KeyBridge).      *)
(*                                                                         *)
(*   apalache-mc check --length=0 --inv=OrderInv TaggedMath.tla            *)
(***************************************************************************)
EXTENDS Integers

VARIABLES
  \* @type: Int;
  a,
  \* @type: Int;
  b

TwoTo64 == 18446744073709551616
P(k) == CASE k = 0 -> 1 [] k = 1 -> 256 [] k = 2 -> 65536 [] k = 3 -> 16777216 [] k = 4 -> 4294967296
          [] k = 5 -> 1099511627776 [] k = 6 -> 281474976710656 [] k = 7 -> 72057594037927936
          [] OTHER -> 18446744073709551616

\* @type: (Int) => Int;
TLen(v) == IF v <= 240 THEN 1 ELSE IF v <= 2287 THEN 2 ELSE IF v <= 67823 THEN 3
           ELSE IF v < P(3) THEN 4 ELSE IF v < P(4) THEN 5 ELSE IF v < P(5) THEN 6
           ELSE IF v < P(6) THEN 7 ELSE IF v < P(7) THEN 8 ELSE 9

\* first byte and payload (as a number of TLen-1 bytes) per the sqlite4 scheme;
\* for two bytes: first = 241 + (v-240) div 256, second = (v-240) mod 256, i.e. the pair read
\* big-endian is 241*256 + (v - 240)
\* @type: (Int) => Int;
Key(v) ==
  LET n == TLen(v) IN
  IF n = 1 THEN v * P(8)
  ELSE IF n = 2 THEN (241 * 256 + (v - 240)) * P(7)
  ELSE IF n = 3 THEN 249 * P(8) + (v - 2288) * P(6)
  ELSE IF n = 4 THEN 250 * P(8) + v * P(5)
  ELSE IF n = 5 THEN 251 * P(8) + v * P(4)
  ELSE IF n = 6 THEN 252 * P(8) + v * P(3)
  ELSE IF n = 7 THEN 253 * P(8) + v * P(2)
  ELSE IF n = 8 THEN 254 * P(8) + v * P(1)
  ELSE 255 * P(8) + v

\* the decoder as arithmetic on the key: the first byte announces the length, the payload follows
\* @type: (Int) => Int;
LenFromFirst(fb) == IF fb <= 240 THEN 1 ELSE IF fb <= 248 THEN 2 ELSE IF fb = 249 THEN 3 ELSE fb - 246
\* @type: (Int) => Int;
DecKey(k) ==
  LET fb == k \div P(8)
      n == LenFromFirst(fb) IN
  IF n = 1 THEN fb
  ELSE IF n = 2 THEN (k \div P(7)) - 241 * 256 + 240
  ELSE IF n = 3 THEN ((k - 249 * P(8)) \div P(6)) + 2288
  ELSE IF n = 4 THEN (k - fb * P(8)) \div P(5)
  ELSE IF n = 5 THEN (k - fb * P(8)) \div P(4)
  ELSE IF n = 6 THEN (k - fb * P(8)) \div P(3)
  ELSE IF n = 7 THEN (k - fb * P(8)) \div P(2)
  ELSE IF n = 8 THEN (k - fb * P(8)) \div P(1)
  ELSE k - fb * P(8)

Init == a \in 0..(TwoTo64 - 1) /\ b \in 0..(TwoTo64 - 1)
Next == UNCHANGED <<a, b>>

OrderInv == a < b => (Key(a) < Key(b) /\ TLen(a) <= TLen(b))
\* every key fits 9 bytes and its first byte is the documented tag
RoundTripInv == DecKey(Key(a)) = a /\ LenFromFirst(Key(a) \div P(8)) = TLen(a)
\* zig-zag (delta codecs, signed helpers): a bijection between the signed and the unsigned 64-bit values
\* @type: (Int) => Int;
ZZ(x) == IF x >= 0 THEN 2 * x ELSE -2 * x - 1
\* @type: (Int) => Int;
UnZZ(k) == IF k % 2 = 0 THEN k \div 2 ELSE -((k + 1) \div 2)
ZigZagInv == LET x == a - 9223372036854775808 IN      \* x ranges over -2^63 .. 2^63-1
             /\ ZZ(x) >= 0 /\ ZZ(x) < TwoTo64 /\ UnZZ(ZZ(x)) = x
             /\ UnZZ(a) >= -9223372036854775808 /\ UnZZ(a) < 9223372036854775808 /\ ZZ(UnZZ(a)) = a
RangeInv == Key(a) >= 0 /\ Key(a) < 256 * P(8)
=============================================================================
