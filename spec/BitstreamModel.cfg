SPECIFICATION Spec
CONSTANTS WB = 4
MaskBits = 4
CHECK_DEADLOCK FALSE
