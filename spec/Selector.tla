------------------------------ MODULE Selector ------------------------------
(***************************************************************************)
(* The analysis and the selection decision tree of the adaptive encoder    *)
(* (varintAdaptiveAnalyze / varintAdaptiveSelectEncoding), as functions of *)
(* the input sequence, and a generator of inputs that sit ON, just BELOW   *)
(* and just ABOVE every threshold of that tree.                            *)
(*                                                                         *)
(* Property C06 quantifies over "every path through the selection decision *)
(* tree".  A path is decided by comparisons of statistics with constants   *)
(* (unique ratio 0.15, maximum 65536, count 10000, density 0.05, average   *)
(* delta 1000 and min/10, outlier ratio 0.05, range 100*count).  Loss      *)
(* appears exactly where a comparison lets through an input the chosen     *)
(* codec cannot hold, i.e. at distance 0 or 1 from a constant, so the      *)
(* generator enumerates deterministic recipes (arithmetic progressions,    *)
(* few-distinct cycles, clusters with far outliers) whose statistics TLC   *)
(* evaluates exactly on the materialised sequence, and the ASSUME below    *)
(* proves that every recipe lands on the intended side of its threshold    *)
(* and that all leaves of the tree are reached.                            *)
(*                                                                         *)
(* The C driver materialises the same recipes (gen_shape: lin, linrev,     *)
(* few, out, spread, lindup) and runs the real encoder; losslessness is decided by *)
(* StoreTrace on the real values.  The predicted leaf is compared with the *)
(* encoder's reported choice only as coverage information (a different but *)
(* lossless selector is not a violation of C06).                           *)
(***************************************************************************)
EXTENDS Integers, Sequences, FiniteSets, SequencesExt, TLC

CONSTANT Tier

\* ------------------------------------------------------------ materialise
\* recipe r = <<shape, n, p1, p2, p3, p4>>; all values < 2^31 here
Lo(e, d) == (IF e >= 0 THEN 2 ^ e ELSE 0) + d

Vals(r) ==
  LET sh == r[1] n == r[2] p1 == r[3] p2 == r[4] p3 == r[5] p4 == r[6] IN
  CASE sh = "lin" ->
         [i \in 1..n |-> Lo(p1, p2) + (i - 1) * p3 + (IF i = n THEN p4 ELSE 0)]
    [] sh = "linrev" ->
         [i \in 1..n |-> Lo(p1, p2) + (n - i) * p3 + (IF i = 1 THEN p4 ELSE 0)]
    [] sh = "few" ->
         [i \in 1..n |-> p3 + ((i - 1) % p1) * p2]
    [] sh = "out" ->
         [i \in 1..n |-> IF i - 1 >= 1 /\ i - 1 <= p1 /\ i - 1 < n
                         THEN p4 + p3 ELSE p4 + ((i - 1) % (p2 + 1))]
    [] sh = "lindup" ->
         [i \in 1..n |-> IF p1 >= 1 /\ i = p1 + 1 THEN p2 + (i - 2) * p3 ELSE p2 + (i - 1) * p3]
    [] sh = "spread" ->
         [i \in 1..n |-> IF n > 1 /\ i = 1 THEN p2 + p1
                         ELSE IF n > 1 /\ i = 2 THEN p2 ELSE p2 + (i - 1) * p1]

\* ---------------------------------------------------------------- analyse
SeqMin(v) == FoldLeft(LAMBDA a, b : IF b < a THEN b ELSE a, v[1], v)
SeqMax(v) == FoldLeft(LAMBDA a, b : IF b > a THEN b ELSE a, v[1], v)
Abs(x) == IF x < 0 THEN -x ELSE x
SumSeq(f) == FoldLeft(LAMBDA a, b : a + b, 0, f)

\* varintAdaptiveCountUnique: exact up to 10000 elements, sampled above
Unique(v) ==
  LET n == Len(v) IN
  IF n <= 10000 THEN Cardinality({v[i] : i \in 1..n})
  ELSE LET ss0 == n \div 10
           ss == IF ss0 < 100 THEN 100 ELSE ss0
           step == n \div ss
           u == Cardinality({v[i * step + 1] : i \in 0..(ss - 1)})
           est == (u * n) \div ss
       IN IF est > n THEN n ELSE est

Stats(v) ==
  LET n == Len(v)
      mn == SeqMin(v)
      mx == SeqMax(v)
      rng == mx - mn
      asc == \A i \in 2..n : v[i] >= v[i - 1]
      desc == \A i \in 2..n : v[i] <= v[i - 1]
      d == [i \in 1..(n - 1) |-> Abs(v[i + 1] - v[i])]
      thr == mn + (rng * 95) \div 100
  IN [count |-> n, min |-> mn, max |-> mx, range |-> rng,
      fits |-> mx < 65536,
      sorted |-> asc, rev |-> (~asc) /\ desc,
      uniq |-> Unique(v),
      avgDelta |-> IF n <= 1 THEN 0 ELSE SumSeq(d) \div (n - 1),
      outliers |-> IF rng > 0 THEN Cardinality({i \in 1..n : v[i] > thr}) ELSE 0]

\* ----------------------------------------------------------------- select
\* float comparisons written as exact rational comparisons (the recipes keep
\* every ratio at least 1e-5 away from the constant unless exactly on it, and
\* an exactly representable quotient equal to the constant compares equal in
\* float too: (float)3/(float)20 == 0.15f)
Choice(s) ==
  IF s.count <= 1 THEN "TAGGED1"
  ELSE IF 100 * s.uniq < 15 * s.count THEN "DICT"
  ELSE IF s.fits /\ s.uniq = s.count /\ s.sorted /\ s.range > 0 /\ s.count < 10000
          /\ 20 * s.count > s.range THEN "BITMAP"
  ELSE IF (s.sorted \/ s.rev) /\ s.min > 0 /\ s.avgDelta < s.min \div 10 THEN "DELTA_REL"
  ELSE IF (s.sorted \/ s.rev) /\ s.avgDelta < 1000 THEN "DELTA_ABS"
  ELSE IF 20 * s.outliers < s.count /\ s.range > 0 THEN "PFOR"
  ELSE IF s.range > 0 /\ s.range < s.count * 100 THEN "FOR"
  ELSE "TAGGED"

Leaves == {"TAGGED1", "DICT", "BITMAP", "DELTA_REL", "DELTA_ABS", "PFOR", "FOR", "TAGGED"}
\* header byte written by the encoder for each leaf
TypeOf(l) == CASE l \in {"DELTA_REL", "DELTA_ABS"} -> 0 [] l = "FOR" -> 1 [] l = "PFOR" -> 2
               [] l = "DICT" -> 3 [] l = "BITMAP" -> 4 [] OTHER -> 5

\* -------------------------------------------------------------- generator
\* each entry: <<edge, recipe, expected leaf>>
R(sh, n, a, b, c, d) == <<sh, n, a, b, c, d>>

Edges ==
  {<<"count=1", R("lin", 1, -1, 7, 1, 0), "TAGGED1">>,
   \* 1. unique ratio against 0.15
   <<"uniq<.15", R("few", 100, 14, 977, 5, 0), "DICT">>,
   <<"uniq=.15", R("few", 100, 15, 977, 5, 0), "TAGGED">>,
   <<"uniq>.15", R("few", 100, 16, 977, 5, 0), "TAGGED">>,
   <<"uniq<.15", R("few", 20, 2, 3, 0, 0), "DICT">>,
   <<"uniq=.15", R("few", 20, 3, 3, 0, 0), "FOR">>,
   <<"uniq sampled", R("few", 20001, 10, 3, 1, 0), "DICT">>,
   <<"uniq sampled", R("lin", 10001, -1, 0, 1, 0), "DELTA_ABS">>,
   \* 2. bitmap: maximum against 65536
   <<"max<65536", R("lin", 7, -1, 65528, 1, 0), "BITMAP">>,
   <<"max=65535", R("lin", 7, -1, 65529, 1, 0), "BITMAP">>,
   <<"max=65536", R("lin", 7, -1, 65530, 1, 0), "DELTA_REL">>,
   <<"max=65537", R("lin", 7, -1, 65531, 1, 0), "DELTA_REL">>,
   <<"max=65535", R("lin", 600, -1, 64936, 1, 0), "BITMAP">>,
   <<"max=65536", R("lin", 600, -1, 64937, 1, 0), "DELTA_REL">>,
   <<"max=65535", R("lin", 4097, -1, 61439, 1, 0), "BITMAP">>,
   <<"max=65536", R("lin", 4097, -1, 61440, 1, 0), "DELTA_REL">>,
   <<"max=65536 sparse", R("lin", 3300, -1, 0, 19, 2855), "DELTA_ABS">>,
   \* bitmap: all unique
   <<"dup last", R("lin", 50, -1, 100, 1, -1), "DELTA_REL">>,
   \* one repeated value at the front / in the middle of otherwise bitmap-worthy data
   <<"dup first", R("lindup", 50, 1, 0, 1, 0), "DELTA_ABS">>,
   <<"dup first", R("lindup", 50, 1, 100, 1, 0), "DELTA_REL">>,
   <<"dup second", R("lindup", 50, 2, 0, 1, 0), "DELTA_ABS">>,
   <<"dup middle", R("lindup", 50, 25, 100, 2, 0), "DELTA_REL">>,
   \* above 10000 elements uniqueness is only estimated from every 10th element: a duplicate the sampler misses
   <<"dup unsampled", R("lindup", 10010, 5, 0, 3, 0), "DELTA_ABS">>,
   <<"dup unsampled", R("lindup", 20001, 7, 1, 3, 0), "DELTA_ABS">>,
   <<"dup last", R("lin", 50, -1, 0, 1, -1), "DELTA_ABS">>,
   \* bitmap: order
   <<"descending", R("linrev", 50, -1, 100, 1, 0), "DELTA_REL">>,
   <<"descending", R("linrev", 50, -1, 0, 1, 0), "DELTA_ABS">>,
   <<"descending to 65535", R("linrev", 50, -1, 65486, 1, 0), "DELTA_REL">>,
   \* bitmap: count against 10000
   <<"count=9999", R("lin", 9999, -1, 0, 1, 0), "BITMAP">>,
   <<"count=10000", R("lin", 10000, -1, 0, 1, 0), "DELTA_ABS">>,
   <<"count=9999 top", R("lin", 9999, -1, 55537, 1, 0), "BITMAP">>,
   \* bitmap: density against 0.05 (20 * count against range)
   <<"density>.05", R("lin", 100, -1, 0, 1, 1900), "BITMAP">>,
   <<"density=.05", R("lin", 100, -1, 0, 1, 1901), "DELTA_ABS">>,
   <<"density<.05", R("lin", 100, -1, 0, 1, 1902), "DELTA_ABS">>,
   <<"density>.05 step", R("lin", 3000, -1, 1, 19, 0), "BITMAP">>,
   <<"density>.05 two", R("lin", 2, -1, 65496, 39, 0), "BITMAP">>,
   <<"density=.05 two", R("lin", 2, -1, 65495, 40, 0), "DELTA_REL">>,
   \* 3. delta: average delta against min/10 and 1000
   <<"avg<min/10", R("lin", 30, -1, 10010, 1000, 0), "DELTA_REL">>,
   <<"avg=min/10", R("lin", 30, -1, 10009, 1000, 0), "TAGGED">>,
   <<"avg<1000", R("lin", 30, -1, 0, 999, 0), "DELTA_ABS">>,
   <<"avg=1000", R("lin", 30, -1, 0, 1000, 0), "TAGGED">>,
   <<"avg=1001", R("lin", 30, -1, 0, 1001, 0), "TAGGED">>,
   <<"avg<1000 rev", R("linrev", 30, -1, 0, 999, 0), "DELTA_ABS">>,
   <<"avg=1000 rev", R("linrev", 30, -1, 0, 1000, 0), "TAGGED">>,
   <<"avg<min/10 rev", R("linrev", 30, -1, 20020, 2000, 0), "DELTA_REL">>,
   <<"avg<1000 min0", R("lin", 241, -1, 0, 999, 239), "DELTA_ABS">>,
   <<"avg=1000 by bump", R("lin", 241, -1, 0, 999, 240), "PFOR">>,
   \* 4. patched: outlier ratio against 0.05
   <<"outliers<.05", R("out", 100, 4, 30, 20000, 1000), "PFOR">>,
   <<"outliers=.05", R("out", 100, 5, 30, 20000, 1000), "TAGGED">>,
   <<"outliers>.05", R("out", 100, 6, 30, 20000, 1000), "TAGGED">>,
   <<"outliers<.05 near", R("out", 100, 4, 30, 9999, 1000), "PFOR">>,
   \* 5. frame of reference: range against 100 * count
   <<"range<100n", R("out", 100, 6, 30, 9999, 1000), "FOR">>,
   <<"range=100n", R("out", 100, 6, 30, 10000, 1000), "TAGGED">>,
   <<"range>100n", R("out", 100, 6, 30, 10001, 1000), "TAGGED">>,
   <<"range<100n min0", R("out", 100, 5, 30, 9999, 0), "FOR">>,
   <<"uniform spread", R("spread", 101, 100, 0, 0, 0), "PFOR">>,
   <<"uniform spread", R("spread", 40, 100, 0, 0, 0), "FOR">>,
   <<"uniform spread", R("spread", 40, 103, 7, 0, 0), "TAGGED">>}
  \cup (IF Tier = "thorough" THEN
   {<<"count=10001", R("lin", 10001, -1, 1, 1, 0), "DELTA_ABS">>,
    <<"uniq sampled", R("few", 10010, 2, 1, 0, 0), "DICT">>,
    <<"uniq sampled", R("few", 20001, 7, 3, 1, 0), "DICT">>,
    <<"max=65535", R("lin", 9999, -1, 55537, 1, 0), "BITMAP">>,
    <<"max=65536", R("lin", 9999, -1, 55538, 1, 0), "DELTA_REL">>,
    <<"density>.05 wide", R("lin", 3277, -1, 0, 19, 3291), "BITMAP">>} ELSE {})

Predicted(e) == Choice(Stats(Vals(e[2])))

Wrong == {e \in Edges : Predicted(e) # e[3]}
ASSUME GeneratorSound ==
  \/ Wrong = {}
  \/ PrintT(<<"WRONG-SIDE", {<<e, Predicted(e), Stats(Vals(e[2]))>> : e \in Wrong}>>) /\ FALSE
ASSUME AllLeavesReached == {e[3] : e \in Edges} = Leaves

VARIABLE out
Init == out = <<>>
Next == \E e \in Edges : out = <<>> /\ out' = e
Spec == Init /\ [][Next]_out
Emit == out = <<>> \/ PrintT(<<"SEL", out[1], out[2][1], out[2][2], out[2][3], out[2][4], out[2][5], out[2][6],
                                out[3], TypeOf(out[3])>>)
=============================================================================
