---------------------------- MODULE BitmapModel ----------------------------
(***************************************************************************)
(* Design-level model of the three-container bitmap (C08) on a small       *)
(* universe 0..N-1 with container threshold T, checked exhaustively by     *)
(* TLC: the implementation-shaped machine (sorted ARRAY of at most T       *)
(* members, BITMAP, RUNS; conversions at T exactly where the code makes    *)
(* them; incrementally maintained cardinality) refines the abstract set    *)
(* S under every history of Add / Remove / AddRange / RemoveRange / Clear /*)
(* serialise+deserialise.                                                  *)
(*                                                                         *)
(* AddRangeReplaces is the pre-fix behaviour of varintBitmapAddRange as a  *)
(* NAMED SWITCH: with TRUE, TLC must find the counterexample "long range   *)
(* added to a non-empty set" (negative control of this model).             *)
(***************************************************************************)
EXTENDS Integers, Sequences, FiniteSets, SequencesExt, TLC

CONSTANTS N, T, AddRangeReplaces, MaxDepth
U == 0..(N - 1)

VARIABLES impl, S, depth
vars == <<impl, S, depth>>

EmptyImpl == [type |-> "ARRAY", card |-> 0, arr |-> <<>>, bits |-> {}, runs |-> <<>>]
RunSet(r) == UNION {{r[i][1] + j : j \in 0..(r[i][2] - 1)} : i \in 1..Len(r)}
Abs(b) == CASE b.type = "ARRAY" -> {b.arr[i] : i \in 1..b.card}
            [] b.type = "BITMAP" -> b.bits
            [] b.type = "RUNS" -> RunSet(b.runs)
SortedSeq(s) == SetToSortSeq(s, <)

\* varintBitmapAdd, container by container
RECURSIVE AddI(_, _)
AddI(b, x) ==
  CASE b.type = "ARRAY" ->
         IF x \in Abs(b) THEN [b |-> b, ret |-> FALSE]
         ELSE IF b.card >= T
         THEN [b |-> [type |-> "BITMAP", card |-> b.card + 1, arr |-> <<>>, bits |-> Abs(b) \cup {x}, runs |-> <<>>], ret |-> TRUE]
         ELSE [b |-> [b EXCEPT !.arr = SortedSeq(Abs(b) \cup {x}), !.card = b.card + 1], ret |-> TRUE]
    [] b.type = "BITMAP" ->
         IF x \in b.bits THEN [b |-> b, ret |-> FALSE]
         ELSE [b |-> [b EXCEPT !.bits = b.bits \cup {x}, !.card = b.card + 1], ret |-> TRUE]
    [] b.type = "RUNS" ->   \* "for simplicity, convert to array or bitmap", then add
         IF b.card >= T
         THEN AddI([type |-> "BITMAP", card |-> b.card, arr |-> <<>>, bits |-> RunSet(b.runs), runs |-> <<>>], x)
         ELSE AddI([type |-> "ARRAY", card |-> b.card, arr |-> SortedSeq(RunSet(b.runs)), bits |-> {}, runs |-> <<>>], x)
RECURSIVE RemI(_, _)
RemI(b, x) ==
  CASE b.type = "ARRAY" ->
         IF x \notin Abs(b) THEN [b |-> b, ret |-> FALSE]
         ELSE [b |-> [b EXCEPT !.arr = SortedSeq(Abs(b) \ {x}), !.card = b.card - 1], ret |-> TRUE]
    [] b.type = "BITMAP" ->
         IF x \notin b.bits THEN [b |-> b, ret |-> FALSE]
         ELSE LET nb == b.bits \ {x}  nc == b.card - 1 IN
              IF nc < T THEN [b |-> [type |-> "ARRAY", card |-> nc, arr |-> SortedSeq(nb), bits |-> {}, runs |-> <<>>], ret |-> TRUE]
              ELSE [b |-> [b EXCEPT !.bits = nb, !.card = nc], ret |-> TRUE]
    [] b.type = "RUNS" ->
         IF b.card >= T
         THEN RemI([type |-> "BITMAP", card |-> b.card, arr |-> <<>>, bits |-> RunSet(b.runs), runs |-> <<>>], x)
         ELSE RemI([type |-> "ARRAY", card |-> b.card, arr |-> SortedSeq(RunSet(b.runs)), bits |-> {}, runs |-> <<>>], x)

RECURSIVE AddEach(_, _, _)
AddEach(b, lo, hi) == IF lo >= hi THEN b ELSE AddEach(AddI(b, lo).b, lo + 1, hi)
RECURSIVE RemEach(_, _, _)
RemEach(b, lo, hi) == IF lo >= hi THEN b ELSE RemEach(RemI(b, lo).b, lo + 1, hi)

AddRangeI(b, lo, hi) ==
  IF lo >= hi THEN b
  ELSE IF hi - lo > T /\ (AddRangeReplaces \/ b.card = 0)
  THEN [type |-> "RUNS", card |-> hi - lo, arr |-> <<>>, bits |-> {}, runs |-> << <<lo, hi - lo>> >>]
  ELSE AddEach(b, lo, hi)
ClearI(b) == CASE b.type = "ARRAY" -> [b EXCEPT !.card = 0, !.arr = <<>>]
               [] b.type = "BITMAP" -> [b EXCEPT !.card = 0, !.bits = {}]
               [] b.type = "RUNS" -> [b EXCEPT !.card = 0, !.runs = <<>>]

Init == impl = EmptyImpl /\ S = {} /\ depth = 0
Tick == depth < MaxDepth /\ depth' = depth + 1
AddX(x) == Tick /\ impl' = AddI(impl, x).b /\ S' = S \cup {x}
          /\ Assert(AddI(impl, x).ret = (x \notin S), "Add misreports change")
RemoveX(x) == Tick /\ impl' = RemI(impl, x).b /\ S' = S \ {x}
             /\ Assert(RemI(impl, x).ret = (x \in S), "Remove misreports change")
AddRange(lo, hi) == Tick /\ impl' = AddRangeI(impl, lo, hi) /\ S' = S \cup {x \in U : lo <= x /\ x < hi}
RemoveRange(lo, hi) == Tick /\ impl' = RemEach(impl, lo, hi) /\ S' = S \ {x \in U : lo <= x /\ x < hi}
Clear == Tick /\ impl' = ClearI(impl) /\ S' = {}
Next == \/ \E x \in U : AddX(x) \/ RemoveX(x)
        \/ \E lo \in U, hi \in 0..N : AddRange(lo, hi) \/ RemoveRange(lo, hi)
        \/ Clear
Spec == Init /\ [][Next]_vars

Refines == Abs(impl) = S
CardOK == impl.card = Cardinality(S)
Shape == /\ impl.type = "ARRAY" => (Len(impl.arr) = impl.card /\ impl.card <= T
                                    /\ \A i \in 1..(impl.card - 1) : impl.arr[i] < impl.arr[i + 1])
         /\ impl.type = "BITMAP" => impl.card = Cardinality(impl.bits)     \* (Clear keeps an empty BITMAP container)
=============================================================================
