------------------------------ MODULE Threads ------------------------------
(***************************************************************************)
(* Concurrent use of the pure codecs (C17).  N threads each perform calls  *)
(* on shared read-only inputs and private outputs; a call is two steps,    *)
(* Begin (read the arguments, compute into scratch) and End (deliver the   *)
(* result).  In the documented design all scratch memory is per call       *)
(* (SharedScratch = FALSE) and TLC shows over ALL interleavings that every *)
(* End delivers F(args).  SharedScratch = TRUE models a static scratch     *)
(* buffer / cached analysis: TLC must find the interleaving in which a     *)
(* thread delivers another call's result (negative control).               *)
(***************************************************************************)
EXTENDS Integers, Sequences, TLC, FiniteSets

CONSTANTS N, Args, SharedScratch, CallsPerThread

Threads == 1..N
F(a) == a * a + 1                       \* stands for any pure function of the arguments

VARIABLES pc, arg, scratch, shared, done, results
vars == <<pc, arg, scratch, shared, done, results>>

Init == /\ pc = [t \in Threads |-> "idle"]
        /\ arg = [t \in Threads |-> 0]
        /\ scratch = [t \in Threads |-> 0]
        /\ shared = 0
        /\ done = [t \in Threads |-> 0]
        /\ results = {}

Begin(t, a) == /\ pc[t] = "idle" /\ done[t] < CallsPerThread
               /\ pc' = [pc EXCEPT ![t] = "busy"] /\ arg' = [arg EXCEPT ![t] = a]
               /\ IF SharedScratch THEN shared' = F(a) /\ UNCHANGED scratch
                  ELSE scratch' = [scratch EXCEPT ![t] = F(a)] /\ UNCHANGED shared
               /\ UNCHANGED <<done, results>>
End(t) == /\ pc[t] = "busy"
          /\ pc' = [pc EXCEPT ![t] = "idle"] /\ done' = [done EXCEPT ![t] = @ + 1]
          /\ results' = results \cup {<<arg[t], IF SharedScratch THEN shared ELSE scratch[t]>>}
          /\ UNCHANGED <<arg, scratch, shared>>
Next == \E t \in Threads : (\E a \in Args : Begin(t, a)) \/ End(t)
Spec == Init /\ [][Next]_vars

\* each call returns exactly what it returns when run alone
SameAsAlone == \A r \in results : r[2] = F(r[1])
=============================================================================
