SPECIFICATION Spec
CONSTANTS Depth = 2
ReadsResidue = TRUE
INVARIANT Pure
CHECK_DEADLOCK FALSE
