SPECIFICATION Spec
CONSTANT Tier = "quick"
INVARIANT Emit
CHECK_DEADLOCK FALSE
