---------------------------- MODULE BitmapWalks ----------------------------
(***************************************************************************)
(* All histories of length <= Depth over an alphabet of bitmap operations  *)
(* chosen around the container thresholds of the real object (4095/4096/   *)
(* 4097 members, ranges longer than 4096, the universe edges 0 and 65535). *)
(* The history is part of the state ON PURPOSE: which container the code   *)
(* is in depends on the history, not on the abstract set, so walks are not *)
(* merged.  TLC checks the abstract machine's own invariants on every      *)
(* state and prints every maximal walk; the driver executes them on the    *)
(* real object and logs every observer after every step.                   *)
(***************************************************************************)
EXTENDS BitmapSet, TLC

CONSTANTS Depth, Full       \* Full = TRUE: the complete alphabet (thorough)

O(op, a, b, k) == [op |-> op, a |-> a, b |-> b, k |-> k]
Core == { O("Add", 0, 0, ""), O("Add", 4096, 0, ""), O("Add", 65535, 0, ""), O("Add", 60000, 0, ""),
          O("Remove", 0, 0, ""), O("Remove", 4096, 0, ""),
          O("AddRange", 0, 4096, ""), O("AddRange", 1, 4098, ""), O("AddRange", 30000, 34097, ""),
          O("AddRange", 0, 5000, ""), O("AddRange", 7, 7, ""), O("AddRange", 100, 50, ""),
          O("RemoveRange", 0, 4096, ""), O("RemoveRange", 100, 4200, ""),
          \* half-open ranges at the universe edge: 65535 itself is never inside [a, 65535)
          O("RemoveRange", 0, 65535, ""), O("AddRange", 65000, 65535, ""), O("AddRange", 0, 65535, ""),
          O("Clear", 0, 0, ""), O("Clone", 0, 0, ""), O("Codec", 0, 0, ""),
          \* the set re-read from a RUN container of whatever size (the library only produces large ones itself)
          O("AsRuns", 0, 0, ""),
          O("AddMany", 0, 0, "L1"),
          O("Or", 0, 0, "K3"), O("And", 0, 0, "K1"), O("Xor", 0, 0, "K2"), O("AndNot", 0, 0, "K4"),
          O("RAndNot", 0, 0, "K1") }
Extra == { O("Optimize", 0, 0, ""), O("Add", 1, 0, ""), O("Add", 4095, 0, ""), O("Remove", 4095, 0, ""), O("Remove", 65535, 0, ""),
           O("AddRange", 0, 4095, ""), O("AddRange", 0, 4097, ""), O("AddRange", 1, 65535, ""),
           O("RemoveRange", 1, 4097, ""), O("RemoveRange", 65535, 65535, ""), O("RemoveRange", 60000, 65535, ""),
           O("AddMany", 0, 0, "L2"), O("AddMany", 0, 0, "L3"),
           O("Or", 0, 0, "K1"), O("Or", 0, 0, "K0"), O("And", 0, 0, "K3"), O("And", 0, 0, "K0"),
           O("Xor", 0, 0, "K1"), O("Xor", 0, 0, "K4"), O("AndNot", 0, 0, "K1"), O("AndNot", 0, 0, "K3"),
           O("ROr", 0, 0, "K2"), O("RAnd", 0, 0, "K4"), O("RXor", 0, 0, "K3"), O("RAndNot", 0, 0, "K4") }
Alphabet == IF Full THEN Core \cup Extra ELSE Core

ASSUME \A k \in DOMAIN Operands : WellFormed(Operands[k]) /\ PrintT(<<"KDEF", k, Operands[k]>>)
ASSUME \A k \in DOMAIN Lists : PrintT(<<"LDEF", k, Lists[k]>>)

\* ---- second family: set algebra between containers of every kind and relative size.
\* The left operand is built by a named construction (empty, single, members
\* adjacent to the right operand's edges, small array, array at the 4095/4096
\* threshold, bitmap, single run, sparse array), then ONE binary operation is
\* applied with every right operand (array / bitmap / run containers, empty,
\* single, skewed sizes) in both argument orders.
Builders ==
  [ empty |-> <<>>,
    single |-> << O("Add", 100, 0, "") >>,
    below |-> << O("Add", 99, 0, ""), O("Add", 100, 0, "") >>,
    above |-> << O("Add", 299, 0, ""), O("Add", 300, 0, "") >>,
    gap |-> << O("Add", 50, 0, ""), O("Add", 65535, 0, "") >>,
    small |-> << O("AddMany", 0, 0, "L1") >>,
    run |-> << O("AddRange", 100, 300, "") >>,
    runbig |-> << O("AddRange", 0, 5000, "") >>,
    runfull |-> << O("AddRange", 0, 65535, ""), O("Add", 65535, 0, "") >>,
    arr4095 |-> << O("Or", 0, 0, "K8") >>,
    arr4096 |-> << O("Or", 0, 0, "K4") >>,
    bits |-> << O("Or", 0, 0, "K1") >>,
    sparse |-> << O("Or", 0, 0, "K9") >>,
    mixed |-> << O("Or", 0, 0, "K3"), O("Remove", 20000, 0, "") >> ]
AlgOps == {"Or", "And", "Xor", "AndNot", "ROr", "RAnd", "RXor", "RAndNot"}
RECURSIVE ApplySeq(_, _)
ApplySeq(S, ops) == IF ops = <<>> THEN S ELSE ApplySeq(Apply(S, Head(ops)).set, Tail(ops))
AsHist(ops) == [i \in 1..Len(ops) |-> <<ops[i].op, ops[i].a, ops[i].b, ops[i].k>>]

\* ---- third family: pairs of small ranges in every relative position (disjoint, abutting, overlapping
\* by one, starting exactly at the other's last member, nested), and single members against a range
SmallRanges == {<<100, 200>>, <<199, 260>>, <<200, 300>>, <<150, 160>>, <<50, 100>>, <<50, 101>>, <<0, 1>>,
                <<65500, 65535>>, <<99, 100>>}
RangeWalks ==
  {<< O("AddRange", r1[1], r1[2], ""), O(op, r2[1], r2[2], "") >> : r1 \in SmallRanges, r2 \in SmallRanges,
                                                                   op \in {"AddRange", "RemoveRange"}}
  \cup {<< O("Add", x, 0, ""), O("AddRange", r[1], r[2], "") >> : x \in {99, 100, 199, 200, 259}, r \in SmallRanges}
  \cup {<< O("AddRange", r[1], r[2], ""), O(op, x, 0, "") >> : x \in {99, 100, 199, 200}, r \in SmallRanges,
                                                               op \in {"Add", "Remove"}}

\* ---- fourth family: bulk adds of every list shape into an empty set, a cleared set, a set holding one of
\* the list's members, followed by another bulk add or a removal
ListWalks ==
  {<< O("AddMany", 0, 0, l) >> : l \in DOMAIN Lists}
  \cup {<< O("Add", 4096, 0, ""), O("Clear", 0, 0, ""), O("AddMany", 0, 0, l) >> : l \in DOMAIN Lists}
  \cup {<< O("Add", x, 0, ""), O("AddMany", 0, 0, l) >> : x \in {7, 9, 65535}, l \in DOMAIN Lists}
  \cup {<< O("AddMany", 0, 0, l), O("AddMany", 0, 0, m) >> : l \in DOMAIN Lists, m \in DOMAIN Lists}
  \cup {<< O("AddMany", 0, 0, l), O("Remove", x, 0, ""), O("Remove", x, 0, "") >> : l \in DOMAIN Lists, x \in {7, 9, 65535}}

\* ---- fifth family: object states that only a particular sequence reaches (a dense container that was cleared
\* or thinned out, an emptied array, a run container that was touched, a deserialised empty set), then a neutral
\* operation (serialise + deserialise, clone, optimise, export as runs), then a mutator at the universe's edges
StateBuilders ==
  [ clearedDense |-> << O("AddRange", 0, 5000, ""), O("Clear", 0, 0, ""), O("Add", 65535, 0, ""), O("Add", 3, 0, "") >>,
    clearedDense0 |-> << O("AddRange", 0, 5000, ""), O("Clear", 0, 0, "") >>,
    thinnedDense |-> << O("AddRange", 0, 4200, ""), O("Add", 65535, 0, ""), O("RemoveRange", 100, 4200, "") >>,
    emptiedArray |-> << O("Add", 7, 0, ""), O("Remove", 7, 0, "") >>,
    runsTouched |-> << O("AddRange", 0, 5000, ""), O("Add", 65535, 0, "") >>,
    runsCut |-> << O("AddRange", 10, 5000, ""), O("Remove", 10, 0, ""), O("Clear", 0, 0, "") >>,
    decodedEmpty |-> << O("Codec", 0, 0, "") >> ]
StateFollow == {O("Add", 65535, 0, ""), O("Add", 0, 0, ""), O("Remove", 65535, 0, ""), O("Remove", 3, 0, ""),
                O("AddRange", 65530, 65535, "")}   \* the exclusive end is a uint16_t: 65536 is not expressible
StateWalks ==
  {StateBuilders[b] \o << O(n, 0, 0, ""), f >> : b \in DOMAIN StateBuilders, n \in Neutral, f \in StateFollow}
  \cup {StateBuilders[b] \o << f, O("Codec", 0, 0, "") >> : b \in DOMAIN StateBuilders, f \in StateFollow}

VARIABLES set, hist
vars == <<set, hist>>
Init == set = Empty /\ hist = <<>>
Algebra == /\ hist = <<>>
           /\ \E b \in DOMAIN Builders, op \in AlgOps, k \in DOMAIN Operands :
                LET o == O(op, 0, 0, k)
                    h == Append(AsHist(Builders[b]), <<op, 0, 0, k>>) IN
                /\ set' = Apply(ApplySeq(Empty, Builders[b]), o).set
                \* padded so that it is never extended by Step and never confused with a walk
                /\ hist' = h \o [i \in 1..(Depth + 1 - Len(h)) |-> <<"Clone", 0, 0, "">>]
                /\ PrintT(<<"WALK", hist'>>)
Step(o) == /\ Len(hist) < Depth
           /\ set' = Apply(set, o).set
           /\ hist' = Append(hist, <<o.op, o.a, o.b, o.k>>)
           /\ (Len(hist') = Depth => PrintT(<<"WALK", hist'>>))
Ranges == /\ hist = <<>>
          /\ \E w \in RangeWalks :
               LET h == AsHist(w) IN
               /\ set' = ApplySeq(Empty, w)
               /\ hist' = h \o [i \in 1..(Depth + 1 - Len(h)) |-> <<"Optimize", 0, 0, "">>]
               /\ PrintT(<<"WALK", hist'>>)
ListsFam == /\ hist = <<>>
            /\ \E w \in ListWalks :
                 LET h == AsHist(w) IN
                 /\ set' = ApplySeq(Empty, w)
                 /\ hist' = h \o [i \in 1..(Depth + 1 - Len(h)) |-> <<"Codec", 0, 0, "">>]
                 /\ PrintT(<<"WALK", hist'>>)
StatesFam == /\ hist = <<>>
             /\ \E w \in StateWalks :
                  LET h == AsHist(w) IN
                  /\ set' = ApplySeq(Empty, w)
                  /\ hist' = h \o [i \in 1..(Depth + 1 - Len(h)) |-> <<"Clone", 0, 0, "">>]
                  /\ PrintT(<<"WALK", hist'>>)
Next == (\E o \in Alphabet : Step(o)) \/ Algebra \/ Ranges \/ ListsFam \/ StatesFam
Spec == Init /\ [][Next]_vars

\* invariants of the abstract machine itself
Inv == /\ WellFormed(set)
       /\ \A i \in 1..Len(set) : set[i][1] >= 0 /\ set[i][2] <= 65536
       /\ Size(set) <= 65536
=============================================================================
