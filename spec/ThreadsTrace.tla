---------------------------- MODULE ThreadsTrace ----------------------------
(***************************************************************************)
(* Trace specification for C17.  The trace is the "alone" pre-pass (every  *)
(* call class executed sequentially) followed by ONE thread's log of       *)
(* Begin/End events with its own sequence numbers.  Per Threads.tla the    *)
(* actions of different threads commute, so each thread's log is checked   *)
(* on its own: Begin/End alternate (pc of the thread), sequence numbers    *)
(* increase by one, and every End delivers exactly the result the same     *)
(* call delivers when run alone.  A "Race" event (ThreadSanitizer report)  *)
(* is never an action of the specification.  Logs of several processes     *)
(* (cold-start repetitions) are concatenated with "Reset" events.          *)
(***************************************************************************)
EXTENDS Integers, Sequences, TLC, Json, IOUtils
Tr == ndJsonDeserialize(IOEnv.TRACE)
NT == Len(Tr)
VARIABLES l, pc, seq, alone
vars == <<l, pc, seq, alone>>
Res(ev) == <<ev.len, ev.digest, ev.head>>
Key(ev) == <<ev.api, ev.input>>
Ref(k) == {i \in 1..Len(alone) : alone[i][1] = k}
Init == l = 1 /\ pc = "idle" /\ seq = 0 /\ alone = <<>>
Fails(ev) ==
  CASE ev.e \in {"Alone", "Reset"} -> {}
    [] ev.e = "Race" -> {<<"C17", "data race reported between concurrent calls">>}
    \* the process died while the threads were running although the same calls complete when run by one thread
    [] ev.e = "Crash" -> {<<"C17", "concurrent calls crashed the process; the same calls run alone do not">>}
    [] ev.e = "Begin" -> (IF pc = "idle" /\ ev.seq = seq + 1 THEN {} ELSE {<<"C17", "H:thread log out of order">>})
    [] ev.e = "End" ->
         (IF pc = "busy" /\ ev.seq = seq + 1 THEN {} ELSE {<<"C17", "H:thread log out of order">>})
         \cup (IF Ref(Key(ev)) = {} THEN {<<"C17", "H:no sequential reference for this call">>}
               ELSE IF alone[CHOOSE i \in Ref(Key(ev)) : TRUE][2] = Res(ev) THEN {}
               ELSE {<<"C17", "a concurrent call returned something else than when run alone">>})
    [] OTHER -> {<<"ANY", "H:unknown event kind">>}
Next == /\ l <= NT
        /\ LET ev == Tr[l] IN
           /\ \A x \in Fails(ev) : PrintT(<<"REJECT", l, x[1], x[2]>>)
           /\ pc' = IF ev.e = "Begin" THEN "busy" ELSE IF ev.e \in {"End", "Reset"} THEN "idle" ELSE pc
           /\ seq' = IF ev.e \in {"Begin", "End"} THEN ev.seq ELSE IF ev.e = "Reset" THEN 0 ELSE seq
           \* "Reset" starts the log of another process: its own sequential reference follows
           /\ alone' = IF ev.e = "Alone" THEN Append(alone, <<Key(ev), Res(ev)>>)
                       ELSE IF ev.e = "Reset" THEN <<>> ELSE alone
        /\ l' = l + 1
Spec == Init /\ [][Next]_vars
=============================================================================
