---------------------------- MODULE PackedModel ----------------------------
(***************************************************************************)
(* (1) Enumerates the admissible packed-array configurations               *)
(*     <<bits 1..32, slot bits>> (an element never spans more than two     *)
(*     slots), plus the compact / micro-promotion variants used in the     *)
(*     tree; each is printed as a CFG line from which the driver's         *)
(*     instantiations of varintPacked.h are generated.                     *)
(* (2) The sorted layer as a state machine over a small value alphabet:    *)
(*     InsertSorted / DeleteMember / Insert(pos) / Delete(pos) / Member /  *)
(*     BinarySearch keep the array equal to a sorted multiset; TLC checks  *)
(*     the invariants over all operation sequences up to Depth and prints  *)
(*     every maximal sequence as a PWALK line for replay on the real code. *)
(***************************************************************************)
EXTENDS Packed, TLC, FiniteSets

CONSTANTS Depth, Vals      \* Vals: small value alphabet (naturals)

Slots == {8, 16, 32, 64}
Configs == {<<b, s>> \in (1..32) \X Slots : Admissible(b, s)}
ASSUME \A c \in Configs : PrintT(<<"CFG", c[1], c[2], "plain">>)
\* variants instantiated in the repository itself (varintPackedTest.c, varintDimension.c)
ASSUME /\ CompactOK(12, 8) /\ PrintT(<<"CFG", 12, 8, "compact_promo64">>)
       /\ Admissible(12, 32) /\ PrintT(<<"CFG", 12, 32, "promo32">>)
       /\ Admissible(12, 8) /\ PrintT(<<"CFG", 12, 8, "promo16_max3700">>)
\* a declared maximum length selects the type that carries every length argument: limits on both sides of
\* the 8-bit boundary, exercised with arrays filled to exactly the limit
ASSUME \A m \in {"max255", "max256", "max257"} : Admissible(12, 8) /\ PrintT(<<"CFG", 12, 8, m>>)
\* what the header documents when nothing, or only the width, is requested: 12 bits, 32-bit slots
ASSUME Admissible(12, 32) /\ PrintT(<<"CFG", 12, 32, "defaults">>)
ASSUME \A b \in {7, 24} : Admissible(b, 32) /\ PrintT(<<"CFG", b, 32, "defslot">>)
ASSUME Cardinality(Configs) >= 80

Cap == 6
VARIABLES arr, hist
vars == <<arr, hist>>
Init == arr = <<>> /\ hist = <<>>

SortedInsert(xs, v) == LET k == Cardinality({j \in 1..Len(xs) : xs[j] < v}) IN
                       SubSeq(xs, 1, k) \o <<v>> \o SubSeq(xs, k + 1, Len(xs))
FirstIdx(xs, v) == LET idx == {j \in 1..Len(xs) : xs[j] = v} IN
                   IF idx = {} THEN 0 ELSE CHOOSE k \in idx : \A j \in idx : k <= j
Record(op, a) == hist' = Append(hist, <<op, a>>)
             /\ (Len(hist') = Depth => PrintT(<<"PWALK", hist'>>))
InsertSorted(v) == Len(arr) < Cap /\ arr' = SortedInsert(arr, v) /\ Record("InsertSorted", v)
DeleteMember(v) == /\ arr' = (IF FirstIdx(arr, v) = 0 THEN arr ELSE RemoveAt(arr, FirstIdx(arr, v)))
                   /\ Record("DeleteMember", v)
Member(v) == arr' = arr /\ Record("Member", v)
Next == Len(hist) < Depth /\ \E v \in Vals : InsertSorted(v) \/ DeleteMember(v) \/ Member(v)
Spec == Init /\ [][Next]_vars

Sorted == \A k \in 1..(Len(arr) - 1) : arr[k] <= arr[k + 1]
Bounded == Len(arr) <= Cap
=============================================================================
