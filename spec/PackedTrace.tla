----------------------------- MODULE PackedTrace -----------------------------
(***************************************************************************)
(* Trace specification for the packed bit arrays (C09).  Memory images     *)
(* are judged on the flat LSB-first bit string (Packed.tla): Set/Incr/Half *)
(* change exactly the addressed element, every other bit of the image      *)
(* (neighbouring elements, the guard slots around the array) is unchanged, *)
(* Get returns the element; "tight" images end at a PROT_NONE page, so a   *)
(* fault means a slot the element does not occupy was accessed.  The       *)
(* sorted layer is judged on the element sequence decoded from the image;  *)
(* the state carries the array length across a walk.                       *)
(***************************************************************************)
EXTENDS Packed, TLC, Json, IOUtils
Tr == ndJsonDeserialize(IOEnv.TRACE)
NT == Len(Tr)
VARIABLES l, curlen, live
vars == <<l, curlen, live>>
Bad(cond, prop, why) == IF cond THEN {} ELSE {<<prop, why>>}

Elem(mem, base, B, i) == [k \in 1..B |-> MemBit(mem, 8 * base + i * B + k - 1)]
Ones(B) == [k \in 1..B |-> 1]
Zeros(B) == [k \in 1..B |-> 0]
OnlyElemChanged(pre, post, base, B, i, want) ==
  /\ Len(post) = Len(pre)
  /\ \A g \in 0..(8 * Len(pre) - 1) :
       LET lo == 8 * base + i * B IN
       MemBit(post, g) = IF lo <= g /\ g < lo + B THEN want[g - lo + 1] ELSE MemBit(pre, g)

PkFails(ev) ==
  IF ~Admissible(ev.bits, ev.slot) THEN {<<"C09", "H:configuration is not admissible">>}
  ELSE IF ev.fault # 0
  THEN {<<"C09", IF ev.mode = "tight" THEN "a storage slot the element does not occupy was accessed" ELSE "packed-array call crashed">>}
  ELSE LET B == ev.bits
           cur == Elem(ev.pre, ev.base, B, ev.i)
           arg == ValBits(ev.val, B)
           want == CASE ev.op = "Set" -> arg
                     [] ev.op = "Incr" -> AddBits(cur, arg).sum
                     [] ev.op = "Half" -> HalfBits(cur)
           inrange == ev.op # "Incr" \/ AddBits(cur, arg).carry = 0
       IN IF ~inrange THEN {<<"C09", "H:increment leaves the value range">>}
          ELSE Bad(OnlyElemChanged(ev.pre, ev.post, ev.base, B, ev.i, want), "C09",
                   "write changed a bit outside the element or stored a wrong value")
               \cup Bad(ValBits(ev.got, B) = want /\ ValBits(ev.got, 32) = want \o [k \in 1..(32 - B) |-> 0], "C09",
                        "read of the written element returns a different value")

ElemSeq(mem, B, n) == [k \in 1..n |-> Elem(mem, 0, B, k - 1)]
InsertAtSeq(xs, pos, v) == SubSeq(xs, 1, pos) \o <<v>> \o SubSeq(xs, pos + 1, Len(xs))     \* pos 0-based
FirstEq(xs, v) == LET idx == {k \in 1..Len(xs) : xs[k] = v} IN
                  IF idx = {} THEN 0 ELSE CHOOSE k \in idx : \A j \in idx : k <= j
TailSame(pre, post, frombit) == \A g \in frombit..(8 * Len(pre) - 1) : MemBit(post, g) = MemBit(pre, g)

SeqFails(ev, n) ==
  LET B == ev.bits  xs == ElemSeq(ev.pre, B, ev.len)  v == ValBits(ev.val, B)
      ys == ElemSeq(ev.post, B, ev.newlen)
  IN IF ev.len # n THEN {<<"C09", "H:walk length bookkeeping differs">>}
     ELSE IF ev.fault # 0 THEN {<<"C09", "sorted-array call crashed">>}
     ELSE CASE ev.op = "InsertSorted" ->
                 IF ~IsSortedBits(xs) THEN {<<"C09", "H:array not sorted before a sorted insert">>}
                 ELSE Bad(ys = InsertAtSeq(xs, LowerBound(xs, v), v), "C09", "sorted insert does not keep the sorted multiset")
                      \cup Bad(TailSame(ev.pre, ev.post, (ev.len + 1) * B), "C09", "insert changed storage beyond the new array")
            [] ev.op = "InsertAt" ->
                 Bad(ys = InsertAtSeq(xs, ev.a, v), "C09", "positional insert produced a wrong sequence")
                 \cup Bad(TailSame(ev.pre, ev.post, (ev.len + 1) * B), "C09", "insert changed storage beyond the new array")
            [] ev.op = "DeleteAt" ->
                 Bad(ys = RemoveAt(xs, ev.a + 1), "C09", "positional delete produced a wrong sequence")
                 \cup Bad(TailSame(ev.pre, ev.post, ev.len * B), "C09", "delete changed storage beyond the array")
            [] ev.op = "DeleteMember" ->
                 LET k == FirstEq(xs, v) IN
                 Bad((ev.ret = 1) = (k # 0), "C09", "delete-member misreports whether the value was present")
                 \cup Bad(ys = (IF k = 0 THEN xs ELSE RemoveAt(xs, k)), "C09", "delete-member does not remove exactly one equal element")
                 \cup Bad(TailSame(ev.pre, ev.post, ev.len * B), "C09", "delete changed storage beyond the array")
            [] ev.op = "Member" ->
                 LET k == FirstEq(xs, v) IN
                 Bad(ev.ret = (IF k = 0 THEN -1 ELSE k - 1), "C09", "membership does not return the first equal element or -1")
                 \cup Bad(ev.ret2 = LowerBound(xs, v), "C09", "binary search is not the lower bound")
                 \cup Bad(ev.post = ev.pre, "C09", "a query modified the array")
            [] OTHER -> {<<"ANY", "H:unknown sequence op">>}

Fails(ev, n) == CASE ev.e = "Pk" -> PkFails(ev)
                  [] ev.e = "PkSeq" -> SeqFails(ev, n)
                  [] ev.e = "PkNew" -> {}
                  [] OTHER -> {<<"ANY", "H:unknown event kind">>}
\* after the first rejected step of a walk the real array has diverged from the model:
\* the rest of that walk is not judged (resynchronise at the next PkNew)
Init == l = 1 /\ curlen = 0 /\ live = TRUE
Next == /\ l <= NT
        /\ LET ev == Tr[l]
               fs == IF ev.e = "PkSeq" /\ ~live THEN {} ELSE Fails(ev, curlen)
           IN
           /\ \A x \in fs : PrintT(<<"REJECT", l, x[1], x[2]>>)
           /\ curlen' = IF ev.e = "PkNew" THEN 0 ELSE IF ev.e = "PkSeq" THEN ev.newlen ELSE curlen
           /\ live' = IF ev.e = "PkNew" THEN TRUE ELSE IF ev.e = "PkSeq" THEN (live /\ fs = {}) ELSE live
        /\ l' = l + 1
Spec == Init /\ [][Next]_vars
=============================================================================
