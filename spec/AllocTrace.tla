----------------------------- MODULE AllocTrace -----------------------------
(***************************************************************************)
(* Trace specification for single allocation failures (C18).               *)
(*                                                                         *)
(* A call is a sequence of allocation steps; the fault plan fk = k makes   *)
(* the k-th one return NULL.  Allowed outcomes of the faulted call:        *)
(*   (a) the documented failure indication, every pre-existing object      *)
(*       keeping its abstract value, or                                    *)
(*   (b) success with a fully correct result.                              *)
(* Never: a crash, a leak (live blocks after the scenario's frees), or      *)
(* success with a wrong result.  For the bitmap the abstract set is the    *)
(* state of this specification; the faulted step may take either branch    *)
(* (the outcome is not logged -- TLC infers it from the observers), and    *)
(* the object must keep behaving as that set in the follow-up steps.       *)
(***************************************************************************)
EXTENDS BitmapSet, TLC, Json, IOUtils
Tr == ndJsonDeserialize(IOEnv.TRACE)
NT == Len(Tr)
VARIABLES l, S, live
vars == <<l, S, live>>
Bad(cond, prop, why) == IF cond THEN {} ELSE {<<prop, why>>}
AsIvs(runs) == [i \in 1..Len(runs) |-> <<runs[i][1], runs[i][2]>>]

\* ---- codec calls
AFFails(ev) ==
  Bad(ev.fault = 0, "C18", "call crashed when an allocation failed")
  \cup Bad(ev.fault # 0 \/ ev.leak = 0, "C18", "memory leaked after an allocation failure")
  \cup Bad(ev.fault # 0 \/ ev.ok = 0 \/ ev.same # 0, "C18",
           "call reported success but its output does not decode to the input")
  \cup Bad(ev.fault # 0 \/ ev.ok = 1 \/ ev.same # 0, "C18", "object unusable after a reported failure")
  \cup Bad(ev.fk > 0 \/ (ev.ok = 1 /\ ev.same # 0), "C18", "H:unfaulted reference run failed")
  \* encoders: the destination has exactly the size the sizing function advertised for this input (C03)
  \cup Bad(ev.adv < 0 \/ ev.fault # 0 \/ ev.written <= ev.adv, "C03",
           "encoder wrote more than the advertised size when an allocation failed")
  \cup Bad(ev.adv < 0 \/ ev.fault # 1 \/ ev.foff < ev.adv, "C03",
           "encoder wrote beyond a destination of exactly the advertised size when an allocation failed")

\* ---- bitmap steps
Matches(ev, want) ==
  /\ ev.obs_fault = 0 /\ ev.it_fault = 0
  /\ ev.card = Size(want) /\ (ev.empty = 1) = (want = Empty)
  /\ AsIvs(ev.ivs) = want /\ ev.n = Size(want)
  /\ AsIvs(ev.it_ivs) = want /\ ev.it_n = Size(want)
  /\ \A i \in 1..Len(ev.probes) : ev.probes[i][2] = (IF Has(want, ev.probes[i][1]) THEN 1 ELSE 0)
HasFailureChannel(op) == op \in {"Add", "Remove", "Clone", "Codec"} \cup Binary
\* (a) failed, unchanged, and said so
FailedCleanly(ev, s) ==
  /\ Matches(ev, s)
  /\ CASE ev.op \in {"Add", "Remove"} -> ev.ret = 0
       [] ev.op \in (Binary \cup {"Clone"}) -> ev.ret = 0
       [] ev.op = "Codec" -> ev.ret = -1
       [] OTHER -> FALSE                               \* void operations cannot report failure
\* (b) took effect completely and reported truthfully
Succeeded(ev, s) ==
  LET r == Apply(s, [op |-> ev.op, a |-> ev.a, b |-> ev.b, k |-> ev.k]) IN
  /\ Matches(ev, r.set)
  /\ (ev.op \in {"Add", "Remove"} => (ev.ret = 1) = r.ret)
  /\ (ev.op \in (Binary \cup {"Clone"}) => ev.ret = 1)
  /\ (ev.op = "Codec" => ev.ret > 0)
  /\ (ev.op \in Binary => (AsIvs(ev.k_ivs) = Operands[ev.k]))

StepFails(ev, s) ==
  IF ev.fault # 0 \/ ev.dead = 1 THEN {<<"C18", "bitmap operation crashed when an allocation failed">>}
  ELSE IF ev.op = "Operand" THEN Bad(Matches(ev, s), "C18", "operand of a binary operation changed")
  ELSE IF ev.injected = 0
  THEN Bad(Succeeded(ev, s), "C18", IF ev.fk = 0 THEN "H:unfaulted step does not behave as the set (see C08)"
                                    ELSE "bitmap misbehaves after an earlier allocation failure")
  ELSE Bad(Succeeded(ev, s) \/ FailedCleanly(ev, s), "C18",
           IF HasFailureChannel(ev.op) THEN "allocation failure neither reported with the set unchanged nor survived with a correct result"
           ELSE "allocation failure silently left a partial or lost update")
NextSet(ev, s) ==
  IF ev.op = "Operand" \/ ev.fault # 0 \/ ev.dead = 1 THEN s
  ELSE IF ev.injected > 0 /\ ~Succeeded(ev, s) THEN s
  ELSE Apply(s, [op |-> ev.op, a |-> ev.a, b |-> ev.b, k |-> ev.k]).set

Fails(ev, s) ==
  CASE ev.e = "AF" -> AFFails(ev)
    [] ev.e = "Bm" -> StepFails(ev, s)
    [] ev.e = "BmNew" -> {}
    [] ev.e = "BmEnd" -> Bad(ev.live = 0, "C18", "bitmap scenario leaked memory after an allocation failure")
    [] OTHER -> {<<"ANY", "H:unknown event kind">>}

Init == l = 1 /\ S = Empty /\ live = TRUE
Next ==
  /\ l <= NT
  /\ LET ev == Tr[l]
         judge == live \/ ev.e \in {"BmNew", "AF"}
         fs == IF judge THEN Fails(ev, S) ELSE {}
     IN /\ \A x \in fs : PrintT(<<"REJECT", l, x[1], x[2]>>)
        /\ S' = IF ev.e = "BmNew" THEN Empty ELSE IF ev.e = "Bm" THEN NextSet(ev, S) ELSE S
        /\ live' = IF ev.e = "BmNew" THEN TRUE
                   ELSE IF ev.e = "Bm" THEN (live /\ fs = {}) ELSE live
  /\ l' = l + 1
Spec == Init /\ [][Next]_vars
=============================================================================
