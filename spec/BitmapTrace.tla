---------------------------- MODULE BitmapTrace ----------------------------
(***************************************************************************)
(* Trace specification for varintBitmap (C08).  The state is the abstract  *)
(* set the object must denote; every logged step applies BitmapSet!Apply   *)
(* and compares ALL observers of the real object with it: the mutator's    *)
(* return value, cardinality, emptiness, array export and iterator output  *)
(* (ascending, duplicate-free: logged as runs in output order, so any      *)
(* disorder or duplicate makes the run list differ from the interval       *)
(* list), membership probes, and that binary operations leave both         *)
(* operands unchanged.  The container type is logged for coverage only.    *)
(***************************************************************************)
EXTENDS BitmapSet, TLC, Json, IOUtils

Tr == ndJsonDeserialize(IOEnv.TRACE)
NT == Len(Tr)
VARIABLES l, S, live
vars == <<l, S, live>>

Bad(cond, prop, why) == IF cond THEN {} ELSE {<<prop, why>>}
AsIvs(runs) == [i \in 1..Len(runs) |-> <<runs[i][1], runs[i][2]>>]

Observers(ev, want) ==
  Bad(ev.obs_fault = 0 /\ ev.it_fault = 0, "C08", "an observer crashed")
  \cup Bad(ev.card = Size(want), "C08", "cardinality differs from the set's size")
  \cup Bad(ev.scard = Size(want), "C08", "cardinality reported by the statistics differs from the set's size")
  \cup Bad((ev.empty = 1) = (want = Empty), "C08", "IsEmpty differs from the set")
  \cup Bad(AsIvs(ev.ivs) = want /\ ev.n = Size(want), "C08", "array export differs from the set (content, order or duplicates)")
  \cup Bad(AsIvs(ev.it_ivs) = want /\ ev.it_n = Size(want), "C08", "iteration differs from the set (content, order or duplicates)")
  \cup Bad(\A i \in 1..Len(ev.probes) : ev.probes[i][2] = (IF Has(want, ev.probes[i][1]) THEN 1 ELSE 0),
           "C08", "membership query differs from the set")

Fails(ev, s) ==
  IF ev.e = "BmNew" THEN {}
  ELSE IF ev.op = "Operand"
  THEN IF ev.dead = 1 THEN {<<"C08", "object unusable">>} ELSE
       { <<x[1], "binary operation modified its first operand">> : x \in Observers(ev, s) }
  ELSE LET o == [op |-> ev.op, a |-> ev.a, b |-> ev.b, k |-> ev.k]
           r == Apply(s, o)
       IN IF ev.fault # 0 \/ ev.dead = 1 THEN {<<"C08", "operation crashed or lost the object">>}
          ELSE Bad(~(ev.op \in (Binary \cup {"Clone"})) \/ ev.ret = 1, "C08", "operation failed without any allocation failure")
               \cup Bad(~(ev.op \in {"Add", "Remove"}) \/ (ev.ret = 1) = r.ret, "C08",
                   "mutating call misreports whether it changed the set")
               \cup Bad(ev.op # "Codec" \/ ev.ret > 0, "C08", "deserialising the object's own serialisation failed")
               \cup Bad(ev.op # "AsRuns" \/ ev.ret >= 0, "C08", "a valid run-container serialisation of the set was refused")
               \cup Observers(ev, r.set)
               \cup Bad(~(ev.op \in Binary) \/ (AsIvs(ev.k_ivs) = Operands[ev.k] /\ ev.k_n = Size(Operands[ev.k])),
                        "C08", "binary operation modified its second operand")

(* unclaimed conformance fact: the documented serialisation [container_type][data].  Type byte, 32-bit
   little-endian cardinality, then: array container -- members ascending as 16-bit little-endian words, 5 + 2*card
   bytes in all; bitmap container -- 8192 bytes, member v is bit v % 8 of byte v \div 8; run container -- 32-bit
   run count, (start, length) pairs of 16-bit words, 9 + 4*runs bytes, at least as many runs as the set has
   maximal intervals.  Compared on the first 40 bytes and the total length; a disagreement is a NOTE. *)
LE(bs, at, k) == FoldLeft(LAMBDA acc, i : acc * 256 + bs[at + k - i], 0, [i \in 1..k |-> i])
RECURSIVE MemberFrom(_, _, _)
MemberFrom(s, i, left) == IF left <= s[i][2] - s[i][1] THEN s[i][1] + left - 1
                          ELSE MemberFrom(s, i + 1, left - (s[i][2] - s[i][1]))
MemberAt(s, r) == MemberFrom(s, 1, r)   \* r-th smallest member (1-based) of an interval set
LE32Is(b, at, v) == b[at] = v % 256 /\ b[at + 1] = (v \div 256) % 256 /\ b[at + 2] = v \div 65536 /\ b[at + 3] = 0
SerOk(ev, set) ==
  LET b == ev.ser  n == ev.ret  t == ev.ser_type  card == Size(set) IN
  /\ Len(b) >= 5 /\ b[1] = t /\ LE32Is(b, 2, card)
  /\ CASE t = 0 -> /\ n = 5 + 2 * card
                   /\ \A r \in 1..card : (5 + 2 * r <= Len(b)) => LE(b, 4 + 2 * r, 2) = MemberAt(set, r)
       [] t = 1 -> /\ n = 5 + 8192
                   /\ \A j \in 0..(Len(b) - 6) :
                        b[6 + j] = FoldLeft(LAMBDA acc, i : acc * 2 + (IF Has(set, 8 * j + 7 - i) THEN 1 ELSE 0), 0,
                                            [i \in 1..8 |-> i - 1])
       [] t = 2 -> /\ Len(b) >= 9 /\ b[8] = 0 /\ b[9] = 0 /\ n = 9 + 4 * LE(b, 6, 2) /\ LE(b, 6, 2) >= Len(set)
                   /\ \A q \in 1..LE(b, 6, 2) : (9 + 4 * q <= Len(b)) =>
                        LET st == LE(b, 6 + 4 * q, 2)  ln == LE(b, 8 + 4 * q, 2)
                        IN ln >= 1 /\ Has(set, st) /\ Has(set, st + ln - 1)
       [] OTHER -> FALSE
SerNote(ev, set) ==
  IF ev.e = "Bm" /\ ev.op = "Codec" /\ ev.fault = 0 /\ ev.dead = 0 /\ ev.ret > 0
  THEN PrintT(<<"NOTE", "ser-checked", 1>>)
       /\ (IF SerOk(ev, set) THEN TRUE ELSE PrintT(<<"NOTE", "ser-drift-type" \o ToString(ev.ser_type), 1>>))
  ELSE TRUE

Init == l = 1 /\ S = Empty /\ live = TRUE
Next ==
  /\ l <= NT
  /\ LET ev == Tr[l] IN
     /\ \A x \in (IF live \/ ev.e = "BmNew" THEN Fails(ev, S) ELSE {}) : PrintT(<<"REJECT", l, x[1], x[2]>>)
     /\ (IF live /\ ev.e = "Bm" THEN SerNote(ev, S) ELSE TRUE)
     /\ S' = IF ev.e = "BmNew" THEN Empty
             ELSE IF ev.op = "Operand" THEN S
             ELSE Apply(S, [op |-> ev.op, a |-> ev.a, b |-> ev.b, k |-> ev.k]).set
     /\ live' = IF ev.e = "BmNew" THEN TRUE ELSE (live /\ ev.dead = 0 /\ Fails(ev, S) = {})
  /\ l' = l + 1
Spec == Init /\ [][Next]_vars
=============================================================================
