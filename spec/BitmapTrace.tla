---------------------------- MODULE BitmapTrace ----------------------------
(***************************************************************************)
(* Trace specification for varintBitmap (C08).  The state is the abstract  *)
(* set the object must denote; every logged step applies BitmapSet!Apply   *)
(* and compares ALL observers of the real object with it: the mutator's    *)
(* return value, cardinality, emptiness, array export and iterator output  *)
(* (ascending, duplicate-free: logged as runs in output order, so any      *)
(* disorder or duplicate makes the run list differ from the interval       *)
(* list), membership probes, and that binary operations leave both         *)
(* operands unchanged.  The container type is logged for coverage only.    *)
(***************************************************************************)
EXTENDS BitmapSet, TLC, Json, IOUtils

Tr == ndJsonDeserialize(IOEnv.TRACE)
NT == Len(Tr)
VARIABLES l, S, live
vars == <<l, S, live>>

Bad(cond, prop, why) == IF cond THEN {} ELSE {<<prop, why>>}
AsIvs(runs) == [i \in 1..Len(runs) |-> <<runs[i][1], runs[i][2]>>]

Observers(ev, want) ==
  Bad(ev.obs_fault = 0 /\ ev.it_fault = 0, "C08", "an observer crashed")
  \cup Bad(ev.card = Size(want), "C08", "cardinality differs from the set's size")
  \cup Bad(ev.scard = Size(want), "C08", "cardinality reported by the statistics differs from the set's size")
  \cup Bad((ev.empty = 1) = (want = Empty), "C08", "IsEmpty differs from the set")
  \cup Bad(AsIvs(ev.ivs) = want /\ ev.n = Size(want), "C08", "array export differs from the set (content, order or duplicates)")
  \cup Bad(AsIvs(ev.it_ivs) = want /\ ev.it_n = Size(want), "C08", "iteration differs from the set (content, order or duplicates)")
  \cup Bad(\A i \in 1..Len(ev.probes) : ev.probes[i][2] = (IF Has(want, ev.probes[i][1]) THEN 1 ELSE 0),
           "C08", "membership query differs from the set")

Fails(ev, s) ==
  IF ev.e = "BmNew" THEN {}
  ELSE IF ev.op = "Operand"
  THEN IF ev.dead = 1 THEN {<<"C08", "object unusable">>} ELSE
       { <<x[1], "binary operation modified its first operand">> : x \in Observers(ev, s) }
  ELSE LET o == [op |-> ev.op, a |-> ev.a, b |-> ev.b, k |-> ev.k]
           r == Apply(s, o)
       IN IF ev.fault # 0 \/ ev.dead = 1 THEN {<<"C08", "operation crashed or lost the object">>}
          ELSE Bad(~(ev.op \in (Binary \cup {"Clone"})) \/ ev.ret = 1, "C08", "operation failed without any allocation failure")
               \cup Bad(~(ev.op \in {"Add", "Remove"}) \/ (ev.ret = 1) = r.ret, "C08",
                   "mutating call misreports whether it changed the set")
               \cup Bad(ev.op # "Codec" \/ ev.ret > 0, "C08", "deserialising the object's own serialisation failed")
               \cup Bad(ev.op # "AsRuns" \/ ev.ret >= 0, "C08", "a valid run-container serialisation of the set was refused")
               \cup Observers(ev, r.set)
               \cup Bad(~(ev.op \in Binary) \/ (AsIvs(ev.k_ivs) = Operands[ev.k] /\ ev.k_n = Size(Operands[ev.k])),
                        "C08", "binary operation modified its second operand")

Init == l = 1 /\ S = Empty /\ live = TRUE
Next ==
  /\ l <= NT
  /\ LET ev == Tr[l] IN
     /\ \A x \in (IF live \/ ev.e = "BmNew" THEN Fails(ev, S) ELSE {}) : PrintT(<<"REJECT", l, x[1], x[2]>>)
     /\ S' = IF ev.e = "BmNew" THEN Empty
             ELSE IF ev.op = "Operand" THEN S
             ELSE Apply(S, [op |-> ev.op, a |-> ev.a, b |-> ev.b, k |-> ev.k]).set
     /\ live' = IF ev.e = "BmNew" THEN TRUE ELSE (live /\ ev.dead = 0 /\ Fails(ev, S) = {})
  /\ l' = l + 1
Spec == Init /\ [][Next]_vars
=============================================================================
