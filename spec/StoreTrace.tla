----------------------------- MODULE StoreTrace -----------------------------
(***************************************************************************)
(* Trace specification of the integer-array codecs as an abstract          *)
(* REGISTER: Encode(codec, params, xs) stores the sequence xs (and reports *)
(* sizes and metadata); every reader -- full decode with any capacity,     *)
(* random access, block access, header accessors -- is a function of the   *)
(* register content.  (C02, C03, C06, C13, C16.)                           *)
(*                                                                         *)
(* State: l (cursor), reg (line number of the Enc event that filled the    *)
(* register; the sequence itself is Tr[reg].xs, kept out of the state).    *)
(* Monitor style, see ScalarTrace.tla.                                     *)
(***************************************************************************)
EXTENDS Limbs, TLC, Json, IOUtils, FiniteSets

Tr == ndJsonDeserialize(IOEnv.TRACE)
NT == Len(Tr)

VARIABLES l, reg
vars == <<l, reg>>

Bad(cond, prop, why) == IF cond THEN {} ELSE {<<prop, why>>}
Min2(a, b) == IF a < b THEN a ELSE b
CeilDiv(a, b) == (a + b - 1) \div b

(**************************** documented domains ***************************)
Fits32(x) == x[1] = 0 /\ x[2] < 256
\* signed value whose pairwise differences cannot overflow int64: |x| < 2^61
SmallSigned(x) == x[1] < 8192 \/ x[1] >= 57344
Accepts(codec, param, xs) ==
  /\ Len(xs) >= 1
  /\ CASE codec = "delta_s" -> \A i \in 1..Len(xs) : SmallSigned(xs[i])
       [] codec \in {"gamma", "edelta"} -> \A i \in 1..Len(xs) : xs[i] # LZero
       [] codec = "bp32" -> \A i \in 1..Len(xs) : Fits32(xs[i])
       [] codec = "bpd32" -> (\A i \in 1..Len(xs) : Fits32(xs[i])) /\ NonDecreasing(xs)
       [] codec = "bpd64" -> NonDecreasing(xs)
       [] codec = "group" -> Len(xs) <= 64
       [] codec = "pfor" -> param \in {90, 95, 99}
       [] codec = "adaptive" ->
            (param \in -1..5) /\ (param = 4 => (StrictlyIncreasing(xs) /\ LLt(xs[Len(xs)], <<0, 0, 65536>>)))
       [] OTHER -> TRUE

\* which property owns a conjunct, by codec
PRT(codec) == IF codec = "adaptive" THEN "C06" ELSE "C02"

(********************************* Encode **********************************)
\* ground truth derived from the values (Meta) -- C16
ForWidth(xs) == LByteWidth(LSub(LSeqMax(xs), LSeqMin(xs)))
GroupWidth(x) == LET w == LByteWidth(x) IN IF w <= 1 THEN 1 ELSE IF w <= 2 THEN 2 ELSE IF w <= 4 THEN 4 ELSE 8
\* number of block headers / size of last block of the 128-block layouts
BlockedCount(codec, n) == IF codec \in {"bpd32", "bpd64"} THEN n - 1 ELSE n
MetaFails(ev) ==
  LET m == ev.meta  xs == ev.xs  n == Len(xs)  c == ev.codec
      bn == BlockedCount(c, n)
  IN IF m.have = 0 THEN {}
     ELSE Bad(m.count = -1 \/ m.count = n, "C16", "reported element count differs from the number of values encoded")
       \cup Bad(m.size = -1 \/ m.size = ev.written, "C16", "reported encoded size differs from the bytes written")
       \cup Bad(m.hasmin = 0 \/ m.min = LSeqMin(xs), "C16", "reported minimum is not the minimum of the data")
       \cup Bad(m.hasmin # 1 \/ (m.max = LSeqMax(xs) /\ m.range = LSub(LSeqMax(xs), LSeqMin(xs))),
                "C16", "reported maximum/range is not that of the data")
       \cup Bad(~(c \in {"for", "for_batch"}) \/ m.width = ForWidth(xs), "C16", "reported offset width is not the byte width of the range")
       \cup Bad(c # "pfor" \/ (Len(ev.hdr) > LTaggedLen(m.min) /\ m.width = ev.hdr[LTaggedLen(m.min) + 1]),
                "C16", "reported PFOR width differs from the width byte in the stream")
       \cup Bad(m.runs = -1 \/ m.runs = RunCount(xs), "C16", "reported run count is not the number of runs")
       \cup Bad(m.bits = -1 \/ m.bits = (IF c = "gamma" THEN SumOver(GammaBits, xs) ELSE SumOver(DeltaBits, xs)),
                "C16", "reported bit total is not the sum of the code lengths")
       \cup Bad(m.bits = -1 \/ m.size = CeilDiv(m.bits, 8), "C16", "reported byte count is not ceil(bits/8)")
       \cup Bad(m.blocks = -1 \/ m.blocks = CeilDiv(bn, 128), "C16", "reported block count is not the number of blocks in the stream")
       \cup Bad(m.last = -1 \/ bn = 0 \/ m.last = (IF bn % 128 = 0 THEN 128 ELSE bn % 128),
                "C16", "reported last-block size is not the size of the last block")
       \cup Bad(m.type = -1 \/ (Len(ev.hdr) >= 1 /\ m.type = ev.hdr[1] /\ m.type \in 0..5), "C06",
                "reported adaptive encoding differs from the first output byte")
       \cup Bad(m.type = -1 \/ ev.param = -1 \/ m.type = ev.param, "C06", "forced encoding was not used")

EncFails(ev) ==
  IF ~Accepts(ev.codec, ev.param, ev.xs) THEN {<<"ANY", "H:scenario outside the codec's documented domain">>}
  ELSE IF ev.fault # 0
  THEN {<<"C03", "encoder faulted although the destination had the advertised size plus slack">>,
        <<PRT(ev.codec), "encoder crashed">>}
  ELSE Bad(ev.written <= ev.bound, "C03", "encoder wrote more than the advertised size")
       \cup Bad(ev.exact # 1 \/ ev.written = ev.bound, "C03", "size predictor documented as exact is not exact")
       \cup Bad(ev.exact # 2 \/ ev.written = ev.exactsize, "C03", "size predictor documented as exact is not exact")
       \cup Bad(ev.written >= 1, PRT(ev.codec), "encoder reported failure on an input of its domain")
       \cup MetaFails(ev)

TightFails(ev) ==
  Bad(ev.fault = 0, "C03", "encoder wrote beyond a destination of exactly the advertised size")
  \cup Bad(ev.fault # 0 \/ ev.written <= ev.bound, "C03", "encoder wrote more than the advertised size")

(********************************* readers *********************************)
DecFails(ev, r) ==
  LET E == Tr[r]  xs == E.xs  n == Len(xs)  c == ev.codec  P == PRT(c)
      takesBytes == c \in {"delta_s", "delta_u"}
  IN IF r = 0 \/ E.codec # c THEN {<<"ANY", "H:reader without a matching Enc event">>}
     ELSE IF ev.cap >= n
     THEN Bad(ev.fault = 0, P, "decoder faulted on an exact-size copy of the encoder's output")
          \cup Bad(ev.fault # 1 \/ ev.foff_out = -1000000, "C13",
                   "decoder accessed memory past an output array of exactly `capacity' elements (capacity = element count)")
          \cup Bad(ev.fault # 0 \/ (ev.ret = n /\ ev.ys = xs), P, "decoded sequence differs from the encoded sequence")
          \cup Bad(ev.fault # 0 \/ ~takesBytes \/ ev.aux = E.written, P, "decoder consumed a different number of bytes than the encoder wrote")
          \cup Bad(ev.fault # 0 \/ c # "group" \/ ev.aux = E.written, "C16", "group decoder's size differs from the bytes its encoder wrote")
          \cup Bad(ev.fault # 0 \/ E.meta.have = 0 \/ E.meta.count < 0 \/ ev.ret = E.meta.count, "C16",
                   "the reported element count differs from the number of elements decoding yields")
          \cup Bad(ev.fault # 0 \/ c # "adaptive" \/ ev.aux = E.hdr[1], "C06", "decoder reports a different encoding than the first byte names")
     ELSE Bad(ev.fault = 0, "C13", "decoder wrote or read out of bounds with a capacity below the element count")
          \cup Bad(ev.fault # 0 \/ ev.ret = 0 \/ (ev.ret <= ev.cap /\ ev.ret = Len(ev.ys) /\ ev.ys = SubSeq(xs, 1, ev.ret)),
                   "C13", "decoder with reduced capacity returned neither failure nor a correct prefix")

AtFails(ev, r) ==
  LET xs == Tr[r].xs IN
  IF r = 0 \/ Tr[r].codec # ev.codec THEN {<<"ANY", "H:reader without a matching Enc event">>}
  ELSE Bad(ev.fault = 0, "C02", "random-access reader faulted")
       \cup Bad(\A k \in 1..Len(ev.idx) : ev.ys[k] = xs[ev.idx[k] + 1], "C02",
                "random-access reader returns a different element than the full decoder")
BlkFails(ev, r) ==
  LET xs == Tr[r].xs  n == Len(xs)  want == Min2(ev.k, n - ev.start) IN
  IF r = 0 \/ Tr[r].codec # ev.codec THEN {<<"ANY", "H:reader without a matching Enc event">>}
  ELSE Bad(ev.fault = 0, "C02", "block reader faulted")
       \cup Bad(ev.fault # 0 \/ (ev.ret = want /\ ev.ys = SubSeq(xs, ev.start + 1, ev.start + want)), "C02",
                "block reader returns different elements than the full decoder")

(******************************* accessors *********************************)
AccWant(ev, E) ==
  LET xs == E.xs  n == Len(xs)  c == ev.codec  a == ev.api IN
  CASE a \in {"Analyze.count", "BatchAnalyze.count"} -> [num |-> n, any |-> FALSE]
    [] a \in {"Analyze.minValue", "BatchAnalyze.minValue"} -> [val |-> LSeqMin(xs)]
    [] a \in {"Analyze.offsetWidth", "BatchAnalyze.offsetWidth", "ComputeWidth"} -> [num |-> ForWidth(xs), any |-> FALSE]
    [] a = "Analyze.runCount" -> [num |-> RunCount(xs), any |-> FALSE]
    [] a = "Analyze.encodedSize" -> [num |-> E.written, any |-> FALSE]
    [] a = "GetFieldWidth" -> [num |-> GroupWidth(xs[ev.idx + 1]), any |-> FALSE]
    [] a = "MaxBitWidth" -> [num |-> LBitLen(LSeqMax(xs)), any |-> FALSE]
    [] a \in {"ReadMetadata.count", "GetCount", "ReadMeta.count", "GetFieldCount", "ReadMeta.originalCount"} ->
         [num |-> n, any |-> (c = "adaptive" /\ ~(E.hdr[1] \in {1, 2}))]   \* adaptive: documented as 0 for other encodings
    [] a \in {"ReadMetadata.minValue", "GetMinValue", "ReadMeta.min"} -> [val |-> LSeqMin(xs)]
    [] a \in {"ReadMetadata.offsetWidth", "GetOffsetWidth"} -> [num |-> ForWidth(xs), any |-> FALSE]
    [] a = "ReadMeta.width" -> [num |-> E.meta.width, any |-> FALSE]
    [] a = "ReadMeta.exceptionCount" -> [num |-> E.meta.exc, any |-> FALSE]
    [] a \in {"ReadMetadata.encodedSize", "GetSize"} -> [num |-> E.written, any |-> FALSE]
    [] a = "ReadMeta.encodedSize" -> [num |-> E.written, any |-> ~(E.hdr[1] \in {1}) ]
    [] a = "GetRunCount" -> [num |-> RunCount(xs), any |-> FALSE]
    [] a \in {"ReadMeta.encodingType", "GetEncodingType"} -> [num |-> E.hdr[1], any |-> FALSE]
    [] a = "ReadMeta.headerBytes" -> [num |-> LTaggedLen(LSeqMin(xs)) + 1 + LTaggedLen(LN(n)), any |-> FALSE]
    [] OTHER -> [num |-> -12345, any |-> FALSE]
AccFails(ev, r) ==
  LET E == Tr[r]  w == AccWant(ev, E) IN
  IF r = 0 \/ E.codec # ev.codec THEN {<<"ANY", "H:reader without a matching Enc event">>}
  ELSE Bad(ev.fault = 0, "C16", "header accessor faulted on an exact-size copy")
       \cup (IF ev.fault # 0 THEN {}
             ELSE IF "val" \in DOMAIN w THEN Bad(ev.val = w.val, "C16", "header accessor reports a wrong minimum")
             ELSE IF w.num = -12345 THEN {<<"ANY", "H:unknown accessor">>}
             ELSE Bad(w.any \/ ev.ret = w.num, "C16", "header accessor disagrees with the encoded data"))

(********************************* monitor *********************************)
Fails(ev, r) ==
  CASE ev.e = "Enc" -> EncFails(ev)
    [] ev.e = "EncTight" -> TightFails(ev)
    [] ev.e = "EncEmpty" ->      \* the empty array: one header byte, and metadata that says so
         Bad(ev.fault = 0, "C16", "encoding the empty array faulted")
         \cup Bad(ev.fault # 0 \/ ev.written = 0 \/ (ev.msize = ev.written /\ ev.mcount = 0 /\ ev.mtype = ev.hdr0), "C16",
                  "metadata of an empty encoding does not describe the bytes written")
    [] ev.e = "Dec" -> DecFails(ev, r)
    [] ev.e = "At" -> AtFails(ev, r)
    [] ev.e = "Blk" -> BlkFails(ev, r)
    [] ev.e = "Acc" -> AccFails(ev, r)
    [] ev.e = "Stat" -> Bad(ev.fault = 0, "C16", "the analysis of an accepted array faulted")
    [] OTHER -> {<<"ANY", "H:unknown event kind">>}

(* unclaimed conformance fact: byte-exact layout of the formats Wire.tla specifies *)
WireFmt == INSTANCE Wire
WireNote(ev) ==
  IF ev.e = "Enc" /\ ev.fault = 0 /\ Len(ev.xs) <= 40 /\ Accepts(ev.codec, ev.param, ev.xs) /\ ev.written >= 1
     /\ (ev.codec \in WireFmt!WireCodecs \/ (ev.codec = "adaptive" /\ ev.hdr[1] \in WireFmt!AdaptiveTypes))
  THEN LET want == IF ev.codec = "adaptive" THEN WireFmt!AdaptiveEnc(ev.hdr[1], ev.xs)
                   ELSE WireFmt!Enc(ev.codec, ev.param, ev.xs)
           k == Len(ev.hdr)
           same == Len(want) = ev.written /\ k <= Len(want) /\ SubSeq(want, 1, k) = ev.hdr
       IN PrintT(<<"NOTE", "wire-checked", 1>>)
          /\ (IF same THEN TRUE ELSE PrintT(<<"NOTE", "wire-drift-" \o ev.codec, 1>>))
  ELSE TRUE

(* unclaimed conformance fact: the analysis behind the automatic selection (varintAdaptiveAnalyze and its
   helpers) against the same statistics computed from the values *)
NonIncreasing(xs) == \A i \in 1..(Len(xs) - 1) : LLeq(xs[i + 1], xs[i])
AbsDiff(a, b) == IF LLt(a, b) THEN LSub(b, a) ELSE LSub(a, b)
MaxDelta(xs) == FoldLeft(LAMBDA acc, i : LMax2(acc, AbsDiff(xs[i], xs[i + 1])), LZero, [i \in 1..(Len(xs) - 1) |-> i])
StatNote(ev, r) ==
  IF ev.e = "Stat" /\ ev.fault = 0 /\ r # 0
  THEN LET xs == Tr[r].xs  n == Len(xs)
           asc == NonDecreasing(xs)  desc == NonIncreasing(xs)
           uniq == Cardinality({xs[i] : i \in 1..n})
           facts == << <<"count", ev.count = n>>, <<"min", ev.min = LSeqMin(xs)>>, <<"max", ev.max = LSeqMax(xs)>>,
                       <<"range", ev.range = LSub(LSeqMax(xs), LSeqMin(xs))>>,
                       <<"maxdelta", ev.maxdelta = MaxDelta(xs)>>,
                       <<"unique", ev.unique = uniq /\ ev.cu = uniq>>,
                       <<"sorted", (ev.sorted = 1) = asc /\ (ev.rsorted = 1) = (desc /\ ~asc)
                                   /\ ev.chk = (IF asc THEN 1 ELSE IF desc THEN -1 ELSE 0)>>,
                       <<"fits", (ev.fits = 1) = LLt(LSeqMax(xs), <<0, 0, 65536>>)>> >>
       IN PrintT(<<"NOTE", "stat-checked", 1>>)
          /\ \A k \in 1..Len(facts) : (IF facts[k][2] THEN TRUE ELSE PrintT(<<"NOTE", "stat-drift-" \o facts[k][1], 1>>))
  ELSE TRUE

Init == l = 1 /\ reg = 0
Consume ==
  /\ l <= NT
  /\ LET ev == Tr[l]
         fs == Fails(ev, reg)
     IN /\ \A x \in fs : PrintT(<<"REJECT", l, x[1], x[2]>>)
        /\ WireNote(ev)
        /\ StatNote(ev, reg)
        /\ reg' = IF ev.e = "Enc" THEN l ELSE reg
  /\ l' = l + 1
Next == Consume
Spec == Init /\ [][Next]_vars
Consumed == TLCGet("stats").diameter - 1 = NT
=============================================================================
