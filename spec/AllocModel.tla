----------------------------- MODULE AllocModel -----------------------------
(***************************************************************************)
(* Design-level model of object lifetimes under allocation failure (C18).  *)
(* Objects (bitmaps / dictionaries) own heap blocks; every library call is *)
(* a sequence of allocation steps and at most one of them fails.  The      *)
(* recovery discipline the property demands:                               *)
(*   - a constructor or a result-producing operation that fails after      *)
(*     acquiring k blocks releases them and returns NULL;                  *)
(*   - a mutator that fails leaves the object with its previous blocks     *)
(*     and abstract value.                                                 *)
(* TLC explores all lifetimes (create, mutate with container conversion,   *)
(* binary operation, clone, free) with a fault at every possible step and  *)
(* checks that no block is ever unowned (leak) and every live object is    *)
(* consistent.  Leaky = TRUE removes the "release what was acquired" step  *)
(* of the failure path: TLC must find the leak (negative control).         *)
(***************************************************************************)
EXTENDS Integers, FiniteSets, Sequences, TLC

CONSTANTS Leaky, MaxObjs, Depth

VARIABLES objs,     \* set of live objects: [id, blocks (set of block ids), val]
          heap,     \* set of live block ids
          nextBlk, nextId, steps
vars == <<objs, heap, nextBlk, nextId, steps>>

Init == objs = {} /\ heap = {} /\ nextBlk = 1 /\ nextId = 1 /\ steps = 0
Tick == steps < Depth /\ steps' = steps + 1
Fresh(n) == nextBlk..(nextBlk + n - 1)

\* a call that needs n blocks for a NEW object; failAt in 0..n (0 = no failure)
Construct(n, failAt, v) ==
  /\ Tick /\ Cardinality(objs) < MaxObjs
  /\ IF failAt = 0
     THEN /\ objs' = objs \cup {[id |-> nextId, blocks |-> Fresh(n), val |-> v]}
          /\ heap' = heap \cup Fresh(n) /\ nextBlk' = nextBlk + n /\ nextId' = nextId + 1
     ELSE \* blocks 1..failAt-1 were acquired before the failure
          /\ objs' = objs /\ nextId' = nextId /\ nextBlk' = nextBlk + (failAt - 1)
          /\ heap' = IF Leaky THEN heap \cup Fresh(failAt - 1) ELSE heap
\* a mutator that replaces the payload block (container conversion / growth)
Mutate(o, fails, v) ==
  /\ Tick /\ o \in objs
  /\ IF fails
     THEN UNCHANGED <<objs, heap, nextBlk, nextId>>          \* old payload kept, value unchanged
     ELSE LET old == CHOOSE b \in o.blocks : \A c \in o.blocks : b >= c      \* payload = newest block
              o2 == [o EXCEPT !.blocks = (o.blocks \ {old}) \cup {nextBlk}, !.val = v]
          IN /\ objs' = (objs \ {o}) \cup {o2}
             /\ heap' = (heap \ {old}) \cup {nextBlk} /\ nextBlk' = nextBlk + 1 /\ nextId' = nextId
Free(o) == /\ Tick /\ o \in objs /\ objs' = objs \ {o} /\ heap' = heap \ o.blocks
           /\ UNCHANGED <<nextBlk, nextId>>
Next == \/ \E n \in {2} : \E k \in 0..n : \E v \in {0, 1} : Construct(n, k, v)        \* create / clone / binary op
        \/ \E o \in objs : \E f \in BOOLEAN : \E v \in {0, 1} : Mutate(o, f, v)
        \/ \E o \in objs : Free(o)
Spec == Init /\ [][Next]_vars

Owned == UNION {o.blocks : o \in objs}
NoLeak == heap = Owned
Consistent == \A o \in objs : o.blocks # {} /\ o.blocks \subseteq heap
              /\ \A p \in objs : (p # o) => (p.blocks \cap o.blocks = {})
=============================================================================
