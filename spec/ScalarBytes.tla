---------------------------- MODULE ScalarBytes ----------------------------
(***************************************************************************)
(* Reference wire formats of the scalar varint families, transcribed from  *)
(* the DOCUMENTATION (varintTagged.c header comment l.21-104, the "KEY"    *)
(* table of varintChained.c, varintChainedSimple.h/.c comments, the "Data  *)
(* Layout" comments of the four split headers, varintExternal.h, README)   *)
(* -- never from the function bodies.  A value is a Word (8 LE bytes).     *)
(*                                                                         *)
(* For each family F:  Enc(F,v)  Len(F,v)  LenFromFirst(F,b)  Dec(F,z)     *)
(* plus fixed-width and reversed forms where the family has them.          *)
(***************************************************************************)
EXTENDS Words

Families == {"tagged", "ext", "extbe", "chained", "csimple",
             "split", "splitfull", "splitnz", "split16"}

Max2(a, b) == IF a > b THEN a ELSE b

(***************************** tagged (sqlite4) ****************************)
TaggedMaxN == <<240, 2287, 67823, 16777215>>     \* documented maxima that fit a native
TaggedLen(v) == IF LeqN(v, 240) THEN 1 ELSE IF LeqN(v, 2287) THEN 2 ELSE IF LeqN(v, 67823) THEN 3
                ELSE IF ByteWidth(v) <= 3 THEN 4 ELSE ByteWidth(v) + 1
\* "If V<=240 output A0=V; if V<=2287 A0=(V-240)/256+241, A1=(V-240)%256;
\*  if V<=67823 A0=249, A1=(V-2288)/256, A2=(V-2288)%256; else A0=250..255 and
\*  a big-endian 3..8 byte integer"
TaggedEncW(v, len) ==
  CASE len = 1 -> << v[1] >>
    [] len = 2 -> LET y == Low3(v) - 240 IN << 241 + (y \div 256), y % 256 >>
    [] len = 3 -> LET y == Low3(v) - 2288 IN << 249, y \div 256, y % 256 >>
    [] OTHER   -> << 246 + len >> \o BEBytes(v, len - 1)
TaggedEnc(v) == TaggedEncW(v, TaggedLen(v))
TaggedLenFromFirst(a0) == IF a0 <= 240 THEN 1 ELSE IF a0 <= 248 THEN 2 ELSE a0 - 246
\* DECODE paragraph
TaggedDec(z) ==
  LET a0 == z[1] IN
  IF a0 <= 240 THEN W(a0)
  ELSE IF a0 <= 248 THEN W(240 + 256 * (a0 - 241) + z[2])
  ELSE IF a0 = 249 THEN W(2288 + 256 * z[2] + z[3])
  ELSE FromBE(SubSeq(z, 2, a0 - 246))
\* fixed width w is legal iff the value is representable in that width class
TaggedFixedLegal(v, w) == w \in 1..9 /\ (w = TaggedLen(v) \/ (w >= 4 /\ w >= TaggedLen(v)))
\* bounded reader: 0 if fewer than the announced bytes are available
TaggedGetBounded(z, n) ==
  IF n < 1 \/ n < TaggedLenFromFirst(z[1]) THEN [len |-> 0, val |-> Zero]
  ELSE [len |-> TaggedLenFromFirst(z[1]), val |-> TaggedDec(z)]

(******************************** external *********************************)
ExtLen(v) == ByteWidth(v)
ExtEncW(v, w) == LEBytes(v, w)
ExtBEEncW(v, w) == BEBytes(v, w)

(********************* chained (sqlite3 big-endian groups) *****************)
\* 7 bits - A, 14 - BA, ..., 56 bits - BBBBBBBA, 64 bits - BBBBBBBBC
Ceil7(n) == IF n = 0 THEN 1 ELSE (n + 6) \div 7
ChainedLen(v) == IF BitLen(v) > 56 THEN 9 ELSE Ceil7(BitLen(v))
ChainedEnc(v) ==
  IF BitLen(v) > 56
  THEN \* eight B bytes carry bits 8..63 (most significant group first), C = low byte
       [i \in 1..9 |-> IF i = 9 THEN v[1] ELSE 128 + BitsAt(v, 8 + 7 * (8 - i), 7)]
  ELSE LET n == Ceil7(BitLen(v)) IN
       [i \in 1..n |-> (IF i = n THEN 0 ELSE 128) + BitsAt(v, 7 * (n - i), 7)]
\* length is found by walking continuation bits (at most 8 of them)
ChainedLenOfBytes(z) ==
  LET f[i \in 1..9] == IF i = 9 THEN 9 ELSE IF z[i] < 128 THEN i ELSE f[i+1] IN f[1]

(************** chained-simple (little-endian base-128, 9 cap) *************)
CSimpleLen(v) == IF BitLen(v) > 56 THEN 9 ELSE Ceil7(BitLen(v))
CSimpleEnc(v) ==
  IF BitLen(v) > 56
  THEN [i \in 1..9 |-> IF i = 9 THEN v[8] ELSE 128 + BitsAt(v, 7 * (i - 1), 7)]
  ELSE LET n == Ceil7(BitLen(v)) IN
       [i \in 1..n |-> (IF i = n THEN 0 ELSE 128) + BitsAt(v, 7 * (i - 1), 7)]

(***************************** split families ******************************)
\* lv: first-type levels <<tag, extra payload bytes, offset subtracted, max value>>
\* var: second type: tag, offset subtracted, minimum external width
SplitSpec == [
  split     |-> [lv |-> << [tag |-> 0, extra |-> 0, sub |-> 0, max |-> 63],
                           [tag |-> 64, extra |-> 1, sub |-> 63, max |-> 16446] >>,
                 vtag |-> 128, vsub |-> 16446, minW |-> 1, minLen |-> 1],
  splitfull |-> [lv |-> << [tag |-> 0, extra |-> 0, sub |-> 0, max |-> 63],
                           [tag |-> 64, extra |-> 1, sub |-> 63, max |-> 16446],
                           [tag |-> 128, extra |-> 2, sub |-> 16446, max |-> 4210749] >>,
                 vtag |-> 192, vsub |-> 4210749, minW |-> 2, minLen |-> 1],
  splitnz   |-> [lv |-> << [tag |-> 0, extra |-> 0, sub |-> 1, max |-> 64],
                           [tag |-> 64, extra |-> 1, sub |-> 64, max |-> 16447],
                           [tag |-> 128, extra |-> 2, sub |-> 16447, max |-> 4210750] >>,
                 vtag |-> 192, vsub |-> 4210750, minW |-> 2, minLen |-> 1],
  split16   |-> [lv |-> << [tag |-> 0, extra |-> 1, sub |-> 0, max |-> 16383],
                           [tag |-> 64, extra |-> 2, sub |-> 16383, max |-> 4210686],
                           [tag |-> 128, extra |-> 3, sub |-> 4210686, max |-> 1077952509] >>,
                 vtag |-> 192, vsub |-> 1077952509, minW |-> 4, minLen |-> 2] ]
SplitFams == {"split", "splitfull", "splitnz", "split16"}

\* index of the first level whose documented range holds v, 0 if none
SplitLevel(f, v) ==
  LET lv == SplitSpec[f].lv
      g[i \in 1..(Len(lv) + 1)] == IF i > Len(lv) THEN 0 ELSE IF LeqN(v, lv[i].max) THEN i ELSE g[i+1]
  IN g[1]
SplitVarY(f, v) == Sub(v, W(SplitSpec[f].vsub))
SplitVarW(f, v) == Max2(SplitSpec[f].minW, ByteWidth(SplitVarY(f, v)))
SplitLen(f, v) == LET i == SplitLevel(f, v) IN
                  IF i # 0 THEN 1 + SplitSpec[f].lv[i].extra ELSE 1 + SplitVarW(f, v)
SplitEnc(f, v) ==
  LET i == SplitLevel(f, v) IN
  IF i # 0
  THEN LET L == SplitSpec[f].lv[i]
           y == N(v) - L.sub
           P == <<1, 256, 65536, 16777216>>
       IN << L.tag + (y \div P[L.extra + 1]) >> \o [k \in 1..L.extra |-> (y \div P[L.extra - k + 1]) % 256]
  ELSE LET w == SplitVarW(f, v) IN << SplitSpec[f].vtag + w >> \o LEBytes(SplitVarY(f, v), w)
\* reversed image (type byte last): levels fully byte-reversed, second type = LE payload then type byte
SplitEncReversed(f, v) ==
  LET e == SplitEnc(f, v) IN
  IF SplitLevel(f, v) # 0 THEN Rev(e) ELSE Tail(e) \o << Head(e) >>
\* first byte -> total length (0 = not a valid type byte of this family)
SplitLenFromFirst(f, b) ==
  LET S == SplitSpec[f]  top == b \div 64 IN
  IF S.vtag = 128
  THEN (IF top = 0 THEN 1 ELSE IF top = 1 THEN 2 ELSE IF top = 2 THEN 1 + (b - 128) ELSE 0)
  ELSE (IF top = 3 THEN 1 + (b % 16) ELSE 1 + S.lv[top + 1].extra)
SplitDec(f, z) ==
  LET S == SplitSpec[f]  b == z[1]  top == b \div 64
      isVar == IF S.vtag = 128 THEN top = 2 ELSE top = 3
  IN IF isVar
     THEN LET w == SplitLenFromFirst(f, b) - 1 IN Add(FromLE(SubSeq(z, 2, 1 + w)), W(S.vsub))
     ELSE LET L == S.lv[top + 1]
              P == <<1, 256, 65536, 16777216>>
              pay[k \in 0..L.extra] == IF k = 0 THEN b % 64 ELSE 256 * pay[k-1] + z[1 + k]
          IN W(pay[L.extra] + L.sub)

(**************************** family dispatch ******************************)
SLen(f, v) == CASE f = "tagged" -> TaggedLen(v)
               [] f = "ext" -> ExtLen(v)
               [] f = "extbe" -> ExtLen(v)
               [] f = "chained" -> ChainedLen(v)
               [] f = "csimple" -> CSimpleLen(v)
               [] OTHER -> SplitLen(f, v)
SEnc(f, v) == CASE f = "tagged" -> TaggedEnc(v)
               [] f = "ext" -> ExtEncW(v, ExtLen(v))
               [] f = "extbe" -> ExtBEEncW(v, ExtLen(v))
               [] f = "chained" -> ChainedEnc(v)
               [] f = "csimple" -> CSimpleEnc(v)
               [] OTHER -> SplitEnc(f, v)
\* fixed-width forms (tagged, ext, extbe)
\* "extbig": the 128-bit fixed-width writer / reader (widths up to 16 bytes) carrying a 64-bit value
FixedLegal(f, v, w) == CASE f = "tagged" -> TaggedFixedLegal(v, w)
                         [] f = "extbig" -> w \in 1..16 /\ w >= ByteWidth(v)
                         [] OTHER -> w \in 1..8 /\ w >= ByteWidth(v)
EncFixed(f, v, w) == CASE f = "tagged" -> TaggedEncW(v, w)
                       [] f = "ext" -> ExtEncW(v, w)
                       [] f = "extbe" -> ExtBEEncW(v, w)
                       [] f = "extbig" -> ExtEncW(v, IF w > 8 THEN 8 ELSE w) \o [i \in 1..(IF w > 8 THEN w - 8 ELSE 0) |-> 0]
\* bit r of byte b; word from a bit function
ByteBit(b, r) == (b \div Pow2[r + 1]) % 2
FromBitFn(F(_)) == [i \in 1..8 |-> F(8*(i-1)) + 2*F(8*(i-1)+1) + 4*F(8*(i-1)+2) + 8*F(8*(i-1)+3)
                                   + 16*F(8*(i-1)+4) + 32*F(8*(i-1)+5) + 64*F(8*(i-1)+6) + 128*F(8*(i-1)+7)]
\* value bit k of an n-byte chained / chained-simple encoding z
ChainedBit(z, n, k) ==
  IF n = 9 THEN (IF k < 8 THEN ByteBit(z[9], k) ELSE ByteBit(z[8 - ((k - 8) \div 7)], (k - 8) % 7))
  ELSE (IF k \div 7 < n THEN ByteBit(z[n - (k \div 7)], k % 7) ELSE 0)
CSimpleBit(z, n, k) ==
  IF n = 9 /\ k >= 56 THEN ByteBit(z[9], k - 56)
  ELSE (IF k \div 7 < n THEN ByteBit(z[(k \div 7) + 1], k % 7) ELSE 0)
\* decode an encoding of known total length n (external families need n)
SDec(f, z, n) == CASE f = "tagged" -> TaggedDec(z)
                  [] f = "ext" -> FromLE(SubSeq(z, 1, n))
                  [] f = "extbe" -> FromBE(SubSeq(z, 1, n))
                  [] f = "chained" -> FromBitFn(LAMBDA k : ChainedBit(z, n, k))
                  [] f = "csimple" -> FromBitFn(LAMBDA k : CSimpleBit(z, n, k))
                  [] OTHER -> SplitDec(f, z)
\* documented length ranges
MinLen(f) == IF f = "split16" THEN 2 ELSE 1
MaxLen(f) == IF f \in {"ext", "extbe"} THEN 8 ELSE IF f = "extbig" THEN 16 ELSE 9
\* families whose length is announced by the first byte
LenFromFirst(f, b) == IF f = "tagged" THEN TaggedLenFromFirst(b) ELSE SplitLenFromFirst(f, b)
SelfDescribing(f) == f \in {"tagged"} \cup SplitFams
Accepts(f, v) == f # "splitnz" \/ v # Zero

(************************* documented per-length maxima ********************)
\* as words; DocMax[f][n] = largest value the documentation says fits n bytes
DocMaxTaggedN == <<240, 2287, 67823, 16777215>>
\* 2^(8k)-1 as a word
OnesBytes(k) == [i \in 1..8 |-> IF i <= k THEN 255 ELSE 0]
DocMax(f, n) ==
  CASE f = "tagged" -> (IF n <= 4 THEN W(DocMaxTaggedN[n]) ELSE OnesBytes(n - 1))
    [] f \in {"ext", "extbe"} -> OnesBytes(n)
    [] f \in {"chained", "csimple"} ->   \* 2^(7n)-1, 9 bytes = 2^64-1
         (IF n = 9 THEN AllOnes ELSE Sub(PowW(7 * n), W(1)))
    [] OTHER ->  \* split: the second-type form of n bytes (if the family uses that
                 \* width) reaches further than the first-type level of n bytes
         LET S == SplitSpec[f]
             lvl == {i \in 1..Len(S.lv) : 1 + S.lv[i].extra = n}
         IN IF n - 1 >= S.minW
            THEN (IF n = 9 THEN AllOnes ELSE Add(W(S.vsub), OnesBytes(n - 1)))
            ELSE W(S.lv[CHOOSE i \in lvl : TRUE].max)

(**************************** signed helpers *******************************)
\* sign-magnitude relocation into a w-byte field (varintExternal.h
\* varintPrepareSigned_/varintRestoreSigned_): representable iff |x| < 2^(8w-1)
SignedFits(x, w) == BitLen(Abs(x)) <= 8 * w - 1
SignedStored(x, w) == IF IsNeg(x) THEN SetBit(Abs(x), 8 * w - 1, 1) ELSE x

(******************************* zig-zag ***********************************)
\* (n << 1) ^ (n >> 63): 0,-1,1,-2,... -> 0,1,2,3,...
ZigZag(n) == IF IsNeg(n) THEN Sub(Add(Neg(n), Neg(n)), W(1)) ELSE Add(n, n)
UnZigZag(z) == LET half == [i \in 1..8 |-> (z[i] \div 2) + (IF i < 8 THEN (z[i+1] % 2) * 128 ELSE 0)]
               IN IF z[1] % 2 = 0 THEN half ELSE Sub(Neg(half), W(1))

(**************************** Elias bit strings ****************************)
\* gamma(v), v >= 1: N = floor(log2 v) zeros, then v in N+1 bits MSB first
BinMSB(v, n) == [i \in 1..n |-> BitAt(v, n - i)]
Gamma(v) == LET n == BitLen(v) - 1 IN [i \in 1..n |-> 0] \o BinMSB(v, n + 1)
\* delta(v): gamma(bitlen(v)) then the low bitlen-1 bits of v
Delta(v) == LET L == BitLen(v) IN Gamma(W(L)) \o BinMSB(v, L - 1)
=============================================================================
