----------------------------- MODULE FloatCodec -----------------------------
(***************************************************************************)
(* The float codec's contract (varintFloat.h), on IEEE-754 binary64 bit    *)
(* patterns given as Words (8 LE bytes):                                   *)
(*   - special values (NaN, +-Inf, +-0, subnormal) are reproduced bit for  *)
(*     bit in every precision and mode;                                    *)
(*   - FULL precision reproduces every double bit for bit;                 *)
(*   - reduced precision with mb mantissa bits: sign preserved and         *)
(*     |dec - x| <= |x| * 2^-mb  (the published bound), or dec = +-Inf     *)
(*     when x rounds above the largest finite double;                      *)
(*   - automatic selection picks a precision whose published bound does    *)
(*     not exceed the requested relative error.                            *)
(* All comparisons are exact integer arithmetic on (exponent, 53-bit       *)
(* significand) pairs.                                                     *)
(***************************************************************************)
EXTENDS Words

MantBits(prec) == CASE prec = 0 -> 52 [] prec = 1 -> 23 [] prec = 2 -> 10 [] prec = 3 -> 4
SignOf(x) == BitAt(x, 63)
ExpField(x) == BitsAt(x, 52, 11)                       \* 0..2047
\* 53-bit significand of a normal value (implicit one added) as a word
Sig(x) == [i \in 1..8 |-> IF i <= 6 THEN x[i] ELSE IF i = 7 THEN (x[7] % 16) + 16 ELSE 0]
IsSpecial(x) == ExpField(x) = 0 \/ ExpField(x) = 2047
IsInf(x) == ExpField(x) = 2047 /\ Sig(x) = [i \in 1..8 |-> IF i = 7 THEN 16 ELSE 0]
FromBits(F(_)) == [i \in 1..8 |-> F(8*(i-1)) + 2*F(8*(i-1)+1) + 4*F(8*(i-1)+2) + 8*F(8*(i-1)+3)
                                  + 16*F(8*(i-1)+4) + 32*F(8*(i-1)+5) + 64*F(8*(i-1)+6) + 128*F(8*(i-1)+7)]
ShrBits(w, k) == FromBits(LAMBDA b : IF b + k <= 63 THEN BitAt(w, b + k) ELSE 0)
Dbl(w) == Add(w, w)
AbsDiff(a, b) == IF Lt(a, b) THEN Sub(b, a) ELSE Sub(a, b)

\* |y - x| * 2^mb <= |x| for normal x, y with exponent fields ex, ey and significands Mx, My
WithinBound(x, y, mb) ==
  LET ex == ExpField(x)  ey == ExpField(y)  Mx == Sig(x)  My == Sig(y) IN
  IF ey = ex THEN Leq(AbsDiff(My, Mx), ShrBits(Mx, mb))
  ELSE IF ey = ex + 1 THEN Leq(AbsDiff(Dbl(My), Mx), ShrBits(Mx, mb))                \* units of 2^ex
  ELSE IF ey = ex - 1 THEN Leq(AbsDiff(My, Dbl(Mx)), ShrBits(Dbl(Mx), mb))           \* units of 2^ey
  ELSE FALSE
\* x (normal) rounds above DBL_MAX when kept to mb significand bits
RoundsToInf(x, mb) == ExpField(x) = 2046 /\ Add(Sig(x), PowW(52 - mb))[7] >= 32

Reproduced(x, y, prec) ==
  IF prec = 0 \/ IsSpecial(x) THEN y = x
  ELSE /\ SignOf(y) = SignOf(x)
       /\ \/ ~IsSpecial(y) /\ WithinBound(x, y, MantBits(prec))
          \/ IsInf(y) /\ RoundsToInf(x, MantBits(prec))

\* requested error req (a positive finite double): 2^-mb <= req  <=>  unbiased exponent of req >= -mb
AutoOK(req, sel) == sel = 0 \/ (ExpField(req) >= 1023 - MantBits(sel) /\ SignOf(req) = 0 /\ ExpField(req) < 2047)
=============================================================================
