INIT Init
NEXT Next
CONSTANTS Dense = 300
