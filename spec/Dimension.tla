------------------------------ MODULE Dimension ------------------------------
(***************************************************************************)
(* Dimension headers and matrix cells (varintDimension.h), from the header *)
(* comments: packed form = one integer, 4 bits per level, row above col;   *)
(* pair form = width byte rows<<4 | (cols-1)<<1 | sparse, followed in      *)
(* memory by LE rows (0..8 bytes, 0 for a vector) and LE cols (1..8        *)
(* bytes); cell (r, c) of entry width w lives at                           *)
(*      header length + (r * cols + c) * w         (bit index for booleans)*)
(* Row / column counts are Words (8 LE bytes).                             *)
(***************************************************************************)
EXTENDS Words, SequencesExt

\* n * w for a small native n < 2^31: double-and-add over the bits of n, most significant first
\* (iterative FoldLeft: a recursive LET would be re-evaluated exponentially by TLC)
MulN(w, n) == FoldLeft(LAMBDA acc, k : IF (n \div (2 ^ (30 - k))) % 2 = 1 THEN Add(Add(acc, acc), w) ELSE Add(acc, acc),
                       Zero, [k \in 1..31 |-> k - 1])
\* word * word when one factor fits 31 bits
MulWN(a, b) == IF Fits31(b) THEN MulN(a, N(b)) ELSE MulN(b, N(a))
Shr3(w) == [i \in 1..8 |-> (w[i] \div 8) + (IF i < 8 THEN (w[i + 1] % 8) * 32 ELSE 0)]

RowWidth(rows) == IF rows = Zero THEN 0 ELSE ByteWidth(rows)
ColWidth(cols) == ByteWidth(cols)
PairByte(rows, cols, sparse) == RowWidth(rows) * 16 + (ColWidth(cols) - 1) * 2 + sparse
PairRowWidth(dim) == dim \div 16
PairColWidth(dim) == ((dim \div 2) % 8) + 1
HeaderBytes(rows, cols) == LEBytes(rows, RowWidth(rows)) \o LEBytes(cols, ColWidth(cols))
HeaderLen(rows, cols) == RowWidth(rows) + ColWidth(cols)

\* index of cell (r, c): row-major
CellIndex(cols, r, c) == Add(MulN(cols, r), c)          \* r: native row index
CellOffset(rows, cols, r, c, w) == Add(W(HeaderLen(rows, cols)), MulN(CellIndex(cols, r, c), w))
BitByteOffset(rows, cols, r, c) == Add(W(HeaderLen(rows, cols)), Shr3(CellIndex(cols, r, c)))
BitInByte(cols, r, c) == CellIndex(cols, r, c)[1] % 8

\* packed form: smallest level d (4d bits per coordinate, d <= 8) holding max(r, c)
NibbleWidth(w) == (BitLen(w) + 3) \div 4
PackLevel(r, c) == LET m == IF Lt(r, c) THEN c ELSE r  d == NibbleWidth(m) IN IF d = 0 THEN 1 ELSE d
PackOK(r, c) == PackLevel(r, c) <= 8
ShlNibbles(w, d) == [i \in 1..8 |->
                       LET bit(k) == IF k - 4 * d >= 0 THEN BitAt(w, k - 4 * d) ELSE 0 IN
                       bit(8*(i-1)) + 2*bit(8*(i-1)+1) + 4*bit(8*(i-1)+2) + 8*bit(8*(i-1)+3)
                       + 16*bit(8*(i-1)+4) + 32*bit(8*(i-1)+5) + 64*bit(8*(i-1)+6) + 128*bit(8*(i-1)+7)]
Packed(r, c) == Add(ShlNibbles(r, PackLevel(r, c)), c)
=============================================================================
