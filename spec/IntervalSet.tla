---------------------------- MODULE IntervalSet ----------------------------
(***************************************************************************)
(* Finite sets of naturals as sorted sequences of disjoint, non-adjacent,  *)
(* non-empty half-open intervals <<lo, hi>>.  (TLC cannot afford explicit  *)
(* sets of 65536 integers; every bitmap scenario stays within a few dozen  *)
(* intervals.)                                                             *)
(***************************************************************************)
EXTENDS Naturals, Sequences, SequencesExt, FiniteSetsExt

Empty == <<>>
WellFormed(s) == /\ \A i \in 1..Len(s) : s[i][1] < s[i][2]
                 /\ \A i \in 1..(Len(s) - 1) : s[i][2] < s[i + 1][1]
Has(s, x) == \E i \in 1..Len(s) : s[i][1] <= x /\ x < s[i][2]
Size(s) == FoldLeft(LAMBDA acc, v : acc + (v[2] - v[1]), 0, s)

AddIv(s, lo, hi) ==
  IF lo >= hi THEN s
  ELSE LET touch == {i \in 1..Len(s) : s[i][1] <= hi /\ s[i][2] >= lo}
           nlo == Min({lo} \cup {s[i][1] : i \in touch})
           nhi == Max({hi} \cup {s[i][2] : i \in touch})
       IN SelectSeq(s, LAMBDA v : v[2] < lo) \o << <<nlo, nhi>> >> \o SelectSeq(s, LAMBDA v : v[1] > hi)
RemIv(s, lo, hi) ==
  IF lo >= hi THEN s
  ELSE FlattenSeq([i \in 1..Len(s) |->
         LET v == s[i] IN
         IF v[2] <= lo \/ v[1] >= hi THEN << v >>
         ELSE (IF v[1] < lo THEN << <<v[1], lo>> >> ELSE <<>>) \o (IF v[2] > hi THEN << <<hi, v[2]>> >> ELSE <<>>)])
Union(a, b) == FoldLeft(LAMBDA acc, v : AddIv(acc, v[1], v[2]), a, b)
Diff(a, b) == FoldLeft(LAMBDA acc, v : RemIv(acc, v[1], v[2]), a, b)
Inter(a, b) == Diff(a, Diff(a, b))
SymDiffIv(a, b) == Union(Diff(a, b), Diff(b, a))
FromSeq(xs) == FoldLeft(LAMBDA acc, x : AddIv(acc, x, x + 1), Empty, xs)
=============================================================================
