SPECIFICATION Spec
INVARIANT PairOK
CHECK_DEADLOCK FALSE
