----------------------------- MODULE FloatModel -----------------------------
(***************************************************************************)
(* The float codec's documented algorithm -- decompose, round the          *)
(* significand to nearest keeping mb bits, store mb bits, expand, re-bias  *)
(* -- on a toy binary format (EB exponent bits, MB mantissa bits), checked *)
(* by TLC against the published contract for EVERY toy value and every     *)
(* reduced width.  CarryHandled = FALSE is the pre-fix shape (a rounding   *)
(* carry is packed into mb bits and lost): TLC must find its               *)
(* counterexample (negative control).  The second part prints the value    *)
(* classes the driver instantiates for binary64.                           *)
(***************************************************************************)
EXTENDS Integers, Sequences, TLC

CONSTANTS EB, MB, Reduced, CarryHandled

P2(k) == 2 ^ k
EMax == P2(EB) - 1                      \* all-ones exponent field: Inf/NaN
Normal(e) == e >= 1 /\ e <= EMax - 1

\* encode+decode of a normal toy value (s, e, m) at width mb -> <<s, e, m>> with e = EMax meaning Inf
Codec(s, e, m, mb) ==
  LET Mx == P2(MB) + m
      shift == MB + 1 - mb
      r0 == (Mx + P2(shift - 1)) \div P2(shift)
      carried == r0 >= P2(mb)
      r == IF carried /\ CarryHandled THEN r0 \div 2 ELSE r0
      e2 == IF carried /\ CarryHandled THEN e + 1 ELSE e
      stored == r % P2(mb)                          \* packed into mb bits
      My == stored * P2(shift)
  IN IF e2 >= EMax THEN <<s, EMax, 0>> ELSE <<s, e2, My % P2(MB)>>

\* |y - x| * 2^mb <= |x| in exact integers (same case analysis as FloatCodec!WithinBound)
Within(e, m, ey, my, mb) ==
  LET Mx == P2(MB) + m  My == P2(MB) + my
      Abs(a) == IF a < 0 THEN -a ELSE a
  IN IF ey = e THEN Abs(My - Mx) * P2(mb) <= Mx
     ELSE IF ey = e + 1 THEN Abs(2 * My - Mx) * P2(mb) <= Mx
     ELSE IF ey = e - 1 THEN Abs(My - 2 * Mx) * P2(mb) <= 2 * Mx
     ELSE FALSE
RoundsToInf(e, m, mb) == e = EMax - 1 /\ P2(MB) + m + P2(MB - mb) >= P2(MB + 1)

VARIABLES s, e, m, mb
vars == <<s, e, m, mb>>
Init == s = 0 /\ e = 1 /\ m = 0 /\ mb = 0
Pick == /\ mb = 0 /\ mb' \in Reduced /\ s' \in {0, 1} /\ e' \in 1..(EMax - 1) /\ m' \in 0..(P2(MB) - 1)
Next == Pick
Spec == Init /\ [][Next]_vars

Contract == mb # 0 =>
  LET y == Codec(s, e, m, mb) IN
  /\ y[1] = s
  /\ \/ Normal(y[2]) /\ Within(e, m, y[2], y[3], mb)
     \/ y[2] = EMax /\ y[3] = 0 /\ RoundsToInf(e, m, mb)

\* ---- value classes for the binary64 driver
Exps == {-1022, -1021, -300, -1, 0, 1, 300, 1022, 1023}
Mants == {"zero", "one", "ones", "carry23", "carry10", "carry4", "half23", "half10", "half4", "rand", "rand2"}
Specials == {"pzero", "nzero", "pinf", "ninf", "qnan", "snan", "nanpayload", "minsub", "maxsub", "negsub"}
ASSUME \A sg \in {0, 1}, ex \in Exps, mt \in Mants : PrintT(<<"FCLASS", sg, ex, mt>>)
ASSUME \A sp \in Specials : PrintT(<<"FSPECIAL", sp>>)
=============================================================================
