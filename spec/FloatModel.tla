----------------------------- MODULE FloatModel -----------------------------
(***************************************************************************)
(* The float codec's documented algorithm -- decompose, round the          *)
(* significand to nearest keeping mb bits, store mb bits, expand, re-bias  *)
(* -- on a toy binary format (EB exponent bits, MB mantissa bits), checked *)
(* by TLC against the published contract for EVERY toy value and every     *)
(* reduced width.  CarryHandled = FALSE is the pre-fix shape (a rounding   *)
(* carry is packed into mb bits and lost): TLC must find its               *)
(* counterexample (negative control).  The second part prints the value    *)
(* classes the driver instantiates for binary64.                           *)
(***************************************************************************)
EXTENDS Integers, Sequences, TLC

CONSTANTS EB, MB, Reduced, CarryHandled,
          DB,                 \* bits of the per-element exponent offset in COMMON_EXPONENT mode (8 in the code)
          SpanAfterRounding   \* TRUE: the >DMax fallback test looks at the exponents that are stored (as the
                              \* code does); FALSE: at the exponents before the rounding carry (negative control)

P2(k) == 2 ^ k
EMax == P2(EB) - 1                      \* all-ones exponent field: Inf/NaN
Normal(e) == e >= 1 /\ e <= EMax - 1

\* encode+decode of a normal toy value (s, e, m) at width mb -> <<s, e, m>> with e = EMax meaning Inf
Codec(s, e, m, mb) ==
  LET Mx == P2(MB) + m
      shift == MB + 1 - mb
      r0 == (Mx + P2(shift - 1)) \div P2(shift)
      carried == r0 >= P2(mb)
      r == IF carried /\ CarryHandled THEN r0 \div 2 ELSE r0
      e2 == IF carried /\ CarryHandled THEN e + 1 ELSE e
      stored == r % P2(mb)                          \* packed into mb bits
      My == stored * P2(shift)
  IN IF e2 >= EMax THEN <<s, EMax, 0>> ELSE <<s, e2, My % P2(MB)>>

\* |y - x| * 2^mb <= |x| in exact integers (same case analysis as FloatCodec!WithinBound)
Within(e, m, ey, my, mb) ==
  LET Mx == P2(MB) + m  My == P2(MB) + my
      Abs(a) == IF a < 0 THEN -a ELSE a
  IN IF ey = e THEN Abs(My - Mx) * P2(mb) <= Mx
     ELSE IF ey = e + 1 THEN Abs(2 * My - Mx) * P2(mb) <= Mx
     ELSE IF ey = e - 1 THEN Abs(My - 2 * Mx) * P2(mb) <= 2 * Mx
     ELSE FALSE
RoundsToInf(e, m, mb) == e = EMax - 1 /\ P2(MB) + m + P2(MB - mb) >= P2(MB + 1)

\* ---- array level: COMMON_EXPONENT stores min exponent + a DB-bit offset per
\* element, and falls back to INDEPENDENT when the stored exponents span more
\* than 2^DB - 1.  Rounded(e, m, mb) = <<exponent, kept bits>> as packed.
DMax == P2(DB) - 1
Rounded(e_, m_, w) ==
  LET Mx == P2(MB) + m_
      shift == MB + 1 - w
      r0 == (Mx + P2(shift - 1)) \div P2(shift)
      carried == r0 >= P2(w)
  IN IF carried /\ CarryHandled THEN <<e_ + 1, (r0 \div 2) % P2(w)>> ELSE <<e_, r0 % P2(w)>>
\* exponent each element decodes with, for a two-element array
CommonDecodedExps(e1, m1, e2, m2, w) ==
  LET r1 == Rounded(e1, m1, w)  r2 == Rounded(e2, m2, w)
      lo == IF r1[1] < r2[1] THEN r1[1] ELSE r2[1]
      hi == IF r1[1] > r2[1] THEN r1[1] ELSE r2[1]
      plo == IF e1 < e2 THEN e1 ELSE e2
      phi == IF e1 > e2 THEN e1 ELSE e2
      span == IF SpanAfterRounding THEN hi - lo ELSE phi - plo
  IN IF span > DMax THEN <<r1[1], r2[1]>>                       \* INDEPENDENT: exponents verbatim
     ELSE <<lo + ((r1[1] - lo) % P2(DB)), lo + ((r2[1] - lo) % P2(DB))>>

VARIABLES s, e, m, mb, e2, m2
vars == <<s, e, m, mb, e2, m2>>
Init == s = 0 /\ e = 1 /\ m = 0 /\ mb = 0 /\ e2 = 0 /\ m2 = 0
Pick == /\ mb = 0 /\ mb' \in Reduced /\ s' \in {0, 1} /\ e' \in 1..(EMax - 1) /\ m' \in 0..(P2(MB) - 1)
        /\ e2' = 0 /\ m2' = 0
\* a second element: every exponent, mantissa classes none / carrying / random-ish
PickPair == /\ mb = 0 /\ mb' \in Reduced /\ s' = 0 /\ e' \in 1..(EMax - 2) /\ m' \in 0..(P2(MB) - 1)
            /\ e2' \in 1..(EMax - 2) /\ m2' \in {0, 1, P2(MB) - 1, P2(MB - 1)}
Next == Pick \/ PickPair
Spec == Init /\ [][Next]_vars

\* packaging in an array never changes what an element decodes to
ArrayContract == (mb # 0 /\ e2 # 0) =>
  LET d == CommonDecodedExps(e, m, e2, m2, mb) IN
  /\ d[1] = Rounded(e, m, mb)[1]
  /\ d[2] = Rounded(e2, m2, mb)[1]

Contract == mb # 0 =>
  LET y == Codec(s, e, m, mb) IN
  /\ y[1] = s
  /\ \/ Normal(y[2]) /\ Within(e, m, y[2], y[3], mb)
     \/ y[2] = EMax /\ y[3] = 0 /\ RoundsToInf(e, m, mb)

\* ---- value classes for the binary64 driver
Exps == {-1022, -1021, -300, -1, 0, 1, 300, 1022, 1023}
\* exactK: exactly K fraction bits are needed (bit 52-K set, lower bits zero): the widths on both sides of what
\* each precision keeps (HIGH 22, MEDIUM 9, LOW 3 fraction bits) and of binary32 (23) -- values a lossy mode
\* reproduces exactly next to values it must round
Mants == {"zero", "one", "ones", "carry23", "carry10", "carry4", "half23", "half10", "half4", "rand", "rand2",
          "exact3", "exact4", "exact9", "exact10", "exact22", "exact23", "exact24"}
Specials == {"pzero", "nzero", "pinf", "ninf", "qnan", "snan", "nanpayload", "minsub", "maxsub", "negsub"}
ASSUME \A sg \in {0, 1}, ex \in Exps, mt \in Mants : PrintT(<<"FCLASS", sg, ex, mt>>)
ASSUME \A sp \in Specials : PrintT(<<"FSPECIAL", sp>>)
\* exponent spans on both sides of the COMMON_EXPONENT offset byte, with top /
\* bottom elements that do and do not carry: <<"FSPAN", base, span, top, low>>
SpanBases == {-1022, -300, -128, 0, 511, 766}
Spans == {254, 255, 256, 257}
SpanMants == {"zero", "ones", "carry23", "carry10", "carry4", "rand"}
ASSUME \A b \in SpanBases, sp \in Spans, t \in SpanMants, lw \in {"zero", "ones", "carry10"} :
          b + sp <= 1023 => PrintT(<<"FSPAN", b, sp, t, lw>>)
=============================================================================
