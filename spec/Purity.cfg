SPECIFICATION Spec
CONSTANTS Depth = 2
ReadsResidue = FALSE
INVARIANT Pure
CHECK_DEADLOCK FALSE
