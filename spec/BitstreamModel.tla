--------------------------- MODULE BitstreamModel ---------------------------
(***************************************************************************)
(* Exhaustive small model of varintBitstreamSet/Get (C11): the documented  *)
(* algorithm (position of the high data bit, split across two words when   *)
(* the low position is negative, masks and shifts) written over words of   *)
(* WB bits, checked by TLC against the flat-bit-string contract for ALL    *)
(* memory contents of 3 words, all offsets, widths and values, over all    *)
(* histories (the memory is the state).                                    *)
(*                                                                         *)
(* MaskBits is the width the value mask is computed for: WB is the         *)
(* contract; a larger number models the pre-fix mask "~0ULL >> (word -     *)
(* bits)" truncated to a narrower value type (all ones) and is the         *)
(* negative control: TLC must then find a clobbered neighbour.             *)
(***************************************************************************)
EXTENDS Integers, Sequences, TLC

CONSTANTS WB, MaskBits
NW == 3
P2(k) == 2 ^ k
WordMax == P2(WB) - 1

\* bitwise helpers on naturals < 2^WB
Bit(x, k) == (x \div P2(k)) % 2
AndW(x, y) == LET f[k \in 0..WB] == IF k = 0 THEN 0 ELSE f[k-1] + Bit(x, k-1) * Bit(y, k-1) * P2(k-1) IN f[WB]
OrW(x, y) == LET f[k \in 0..WB] == IF k = 0 THEN 0
                                   ELSE f[k-1] + (IF Bit(x, k-1) + Bit(y, k-1) > 0 THEN P2(k-1) ELSE 0) IN f[WB]
NotW(x) == WordMax - x
Shl(x, k) == (x * P2(k)) % P2(WB)             \* truncated to the word, as C does on assignment
Shr(x, k) == x \div P2(k)

\* value mask as the code computes it: all ones of MaskBits shifted right, truncated to the value type
ValueMask(bits) == ((P2(MaskBits) - 1) \div P2(WB - bits)) % P2(WB)

VARIABLE mem
Init == mem \in [1..NW -> 0..WordMax]

\* the algorithm of varintBitstreamSet
SetImpl(m, off, bits, val) ==
  LET i == (off \div WB) + 1
      high == WB - (off % WB)
      low == high - bits
      vm == ValueMask(bits)
  IN IF low >= 0
     THEN [m EXCEPT ![i] = OrW(AndW(m[i], NotW(Shl(vm, low))), Shl(val, low))]
     ELSE LET hb == -low
              lo == WB - hb
          IN [m EXCEPT ![i] = OrW(AndW(m[i], NotW(Shr(vm, hb))), Shr(val, hb)),
                       ![i + 1] = OrW(AndW(m[i + 1], NotW(Shl(vm, lo))), Shl(val, lo))]
GetImpl(m, off, bits) ==
  LET i == (off \div WB) + 1
      high == WB - (off % WB)
      low == high - bits
      vm == ValueMask(bits)
  IN IF low >= 0 THEN AndW(Shr(m[i], low), vm)
     ELSE LET hb == -low  lo == WB - hb IN
          OrW(Shl(AndW(m[i], Shr(vm, hb)), hb), Shr(m[i + 1], lo))

\* the contract on the flat MSB-first bit string
FlatBit(m, g) == Bit(m[(g \div WB) + 1], WB - 1 - (g % WB))
SetSpecOK(m, m2, off, bits, val) ==
  \A g \in 0..(NW * WB - 1) :
     FlatBit(m2, g) = IF off <= g /\ g < off + bits THEN Bit(val, bits - 1 - (g - off)) ELSE FlatBit(m, g)

SetAct(off, bits, val) ==
  /\ off + bits <= NW * WB
  /\ mem' = SetImpl(mem, off, bits, val)
  /\ Assert(SetSpecOK(mem, mem', off, bits, val), <<"Set violates the bit-string contract", mem, off, bits, val>>)
  /\ Assert(GetImpl(mem', off, bits) = val, <<"Get does not return the written value", mem, off, bits, val>>)
Next == \E off \in 0..(NW * WB - 1), bits \in 1..WB : \E val \in 0..(P2(bits) - 1) : SetAct(off, bits, val)
Spec == Init /\ [][Next]_mem
=============================================================================
