SPECIFICATION Spec
CONSTANTS N = 7
T = 3
AddRangeReplaces = FALSE
MaxDepth = 6
INVARIANTS Refines CardOK Shape
CHECK_DEADLOCK FALSE
