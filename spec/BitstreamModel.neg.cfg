SPECIFICATION Spec
CONSTANTS WB = 4
MaskBits = 8
CHECK_DEADLOCK FALSE
