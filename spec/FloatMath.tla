----------------------------- MODULE FloatMath -----------------------------
(***************************************************************************)
(* The float codec's documented algorithm on the REAL binary64 format,     *)
(* decided by Apalache over symbolic integers for every normal double and  *)
(* each reduced precision (FloatModel.tla decides the same contract        *)
(* exhaustively with TLC on a toy format):                                 *)
(*   decompose x = (-1)^s * (2^52 + m) * 2^(e - 1075), 1 <= e <= 2046;     *)
(*   round the 53-bit significand to nearest keeping mb bits; if rounding  *)
(*   carries, halve and bump the exponent; store mb bits; expand; an       *)
(*   exponent of 2047 is infinity.                                         *)
(* Contract: the result is a normal double y with |y - x| * 2^mb <= |x|,   *)
(* or infinity and x really rounds above the largest finite double.        *)
(***************************************************************************)
EXTENDS Integers

VARIABLES
  \* @type: Int;
  e,
  \* @type: Int;
  m,
  \* @type: Int;
  mb

MB == 52
EMax == 2047
TwoMB == 4503599627370496                \* 2^52

\* @type: (Int) => Int;
P2(k) == CASE k = 3 -> 8 [] k = 4 -> 16 [] k = 9 -> 512 [] k = 10 -> 1024 [] k = 22 -> 4194304 [] k = 23 -> 8388608
           [] k = 29 -> 536870912 [] k = 30 -> 1073741824 [] k = 42 -> 4398046511104 [] k = 43 -> 8796093022208
           [] k = 48 -> 281474976710656 [] k = 49 -> 562949953421312 [] OTHER -> 1

\* result exponent and mantissa field of encode+decode at width w (shift = 53 - w)
\* @type: (Int, Int, Int) => <<Int, Int>>;
Codec(ee, mm, w) ==
  LET Mx == TwoMB + mm
      shift == 53 - w
      r0 == (Mx + P2(shift - 1)) \div P2(shift)
      carried == r0 >= P2(w)
      r == IF carried THEN r0 \div 2 ELSE r0
      e2 == IF carried THEN ee + 1 ELSE ee
      stored == r % P2(w)
      \* the stored w bits are the significand's top bits with the leading 1: expand back to 53 bits
      My == stored * P2(shift)
  IN IF e2 >= EMax THEN <<EMax, 0>> ELSE <<e2, My % TwoMB>>

Abs(x) == IF x < 0 THEN -x ELSE x
\* @type: (Int, Int, Int, Int, Int) => Bool;
Within(ee, mm, ey, my, w) ==
  LET Mx == TwoMB + mm  My == TwoMB + my IN
  IF ey = ee THEN Abs(My - Mx) * P2(w) <= Mx
  ELSE IF ey = ee + 1 THEN Abs(2 * My - Mx) * P2(w) <= Mx
  ELSE FALSE

RoundsToInf(ee, mm, w) == ee = EMax - 1 /\ TwoMB + mm + P2(52 - w) >= 2 * TwoMB

Init == e \in 1..2046 /\ m \in 0..(TwoMB - 1) /\ mb \in {4, 10, 23}
Next == UNCHANGED <<e, m, mb>>

Contract ==
  LET y == Codec(e, m, mb) IN
  \/ y[1] >= 1 /\ y[1] <= EMax - 1 /\ Within(e, m, y[1], y[2], mb)
  \/ y[1] = EMax /\ y[2] = 0 /\ RoundsToInf(e, m, mb)
=============================================================================
