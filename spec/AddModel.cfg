SPECIFICATION Spec
CONSTANTS D = 2
INVARIANTS WidthBounded SlotDecodes
PROPERTY Isolation
CHECK_DEADLOCK FALSE
