------------------------------ MODULE Scenarios ------------------------------
(***************************************************************************)
(* The input-class space of the array codecs, enumerated by TLC.           *)
(* A scenario is <<codec, codec parameter, length class, value shape,      *)
(* shape parameter>>.  Length classes straddle the thresholds of the       *)
(* formats (tagged count 240/241, 2287/2288; 128-blocks 127/128/129;       *)
(* bitmap containers 4095/4096/4097; 65535/65536), value shapes straddle   *)
(* byte- and bit-width boundaries and contain the coincidences named in    *)
(* the properties (offset == all-ones marker, 9-byte tagged values,        *)
(* 64-bit-wide blocks, outliers at the end, periodic data that misleads a  *)
(* sampler, descending / duplicated small values).                         *)
(*                                                                         *)
(* TLC explores the (fan-out) state machine start -> codec -> length ->    *)
(* shape and prints every leaf as a SCEN line; the C driver materialises   *)
(* each leaf (free details from VERIF_SEED) and runs the real code on it.  *)
(* Whether the materialised array is in the codec's documented domain is   *)
(* re-checked by StoreTrace!Accepts on the actual values.                  *)
(***************************************************************************)
EXTENDS Integers, Sequences, TLC, Json, IOUtils

CONSTANTS Tier,      \* "quick" | "thorough"
          Purpose    \* "c02" | "c03" | "c13" | "c16" | "c06"

Thorough == Tier = "thorough"

\* <<codec, codec parameter>>
Plain == {<<"delta_s", 0>>, <<"delta_u", 0>>, <<"for", 0>>, <<"for_batch", 0>>,
          <<"pfor", 90>>, <<"pfor", 95>>, <<"pfor", 99>>, <<"group", 0>>,
          <<"dict", 0>>, <<"dict_with", 0>>, <<"rle", 0>>, <<"rle_hdr", 0>>,
          <<"gamma", 0>>, <<"edelta", 0>>, <<"bp32", 0>>, <<"bp64", 0>>,
          <<"bpd32", 0>>, <<"bpd64", 0>>}
Adaptive == {<<"adaptive", p>> : p \in {-1, 0, 1, 2, 3, 4, 5}}
Codecs == CASE Purpose = "c06" -> Adaptive
            [] Purpose = "c02" -> Plain
            [] OTHER -> Plain \cup Adaptive

\* length classes
CoreLens == {1, 2, 17, 129}
BoundaryLens == {1, 2, 3, 15, 16, 17, 127, 128, 129, 130, 240, 241, 242, 255, 256, 257, 385,
                 2287, 2288, 2289, 4095, 4096, 4097}
HugeLens == {65535, 65536, 65537}
GroupLens == {1, 2, 3, 4, 5, 8, 9, 32, 33, 63, 64}
SamplerLens == {9999, 10000, 10001, 20001}          \* adaptive: exact vs sampled uniqueness
\* adaptive: encodings larger than 2^20 bytes (the decoder is not told the input length): 120 000 distinct
\* 9-byte values under the forced dictionary encoding (1.44 MB); in the thorough tier also an automatically
\* selected dictionary of 700 000 values (1.4 MB)
MegaScenarios == {<<<<"adaptive", 3>>, 120000, <<"nine", 0>>>>}
                 \cup (IF Thorough THEN {<<<<"adaptive", -1>>, 700000, <<"fewuniq", 300>>>>,
                                          <<<<"adaptive", 5>>, 120000, <<"nine", 0>>>>} ELSE {})
Lens(c) == IF c[1] = "group" THEN GroupLens
           ELSE BoundaryLens \cup (IF Thorough THEN HugeLens ELSE {})
                \cup (IF c[1] = "adaptive" THEN SamplerLens ELSE {})
CoreLensOf(c) == IF c[1] = "group" THEN {1, 5, 64} ELSE CoreLens

\* value shapes <<name, parameter>>
CoreShapes == {<<"asc1", 0>>, <<"randw", 0>>, <<"const", 0>>}
WidthShapes == {<<"altbits", b>> : b \in {1, 7, 8, 9, 15, 16, 17, 24, 31, 32, 33, 48, 56, 63, 64}}
               \cup {<<"pow2", p>> : p \in {0, 21, 42}} \cup {<<"ascw", p>> : p \in {0, 5}}
OrderShapes == {<<"desc", 0>>, <<"desc16", 0>>, <<"asc16", 0>>, <<"asc16dup", 0>>}
RepeatShapes == {<<"runs", r>> : r \in {1, 2, 240, 241}} \cup {<<"fewuniq", k>> : k \in {2, 3, 255, 256, 257}}
\* a run whose LENGTH sits on a length class of the tagged varint that stores it (2287/2288), followed by another run
RunBoundaryShapes == {<<"runs", r>> : r \in {2286, 2287, 2288}}
RunCodecs == {"rle", "rle_hdr", "adaptive", "dict", "delta_u", "bpd64"}
WideShapes == {<<"nine", 0>>, <<"max64", 0>>, <<"rand64", 0>>, <<"rand32", 0>>, <<"rand8", 0>>}
\* marker: offset width (w % 3 + 1 bytes) x position of the minimum (w \div 3: first, last, middle)
PatchShapes == {<<"marker", w>> : w \in 0..8} \cup {<<"outfirst", 0>>, <<"outlast", 0>>}
               \cup {<<"cluster", k>> : k \in {0, 10, 49, 51, 200}}
SamplerShapes == {<<"periodic", s>> : s \in {2, 10, 20}}
\* arithmetic progressions whose MINIMUM sits exactly on, one below and one
\* above each length class of the tagged varint that stores it in the FOR /
\* PFOR / delta headers (240, 2287, 67823, 2^24, 2^32, 2^40, 2^48, 2^56) and
\* on the byte-width classes of the offsets: <<"lin", e, d, step, bump>> has
\* lo = 2^e + d (e = -1: lo = d)
MinAtShapes == {<<"lin", -1, d, 1, 0>> : d \in {239, 240, 241, 2286, 2287, 2288, 67822, 67823, 67824}}
               \cup {<<"lin", e, d, 3, 0>> : e \in {24, 32, 40, 48, 56}, d \in {-1, 0, 1}}
               \cup {<<"lin", -1, 240, 1, b>> : b \in {254 - 16, 255 - 16, 256 - 16, 65535 - 16, 65536 - 16}}
\* 128-blocks of zero width: all-zero (zblk) or repeating the previous value
\* (flatblk, zero-width for the delta variants); the parameter's bit b%8 marks
\* block b: first, second, last of three, all, alternating
ZeroBlockShapes == {<<sh, m>> : sh \in {"zblk", "flatblk"}, m \in {1, 2, 4, 5, 255, 254}}
\* integer constants < 2^31 found in the sources of the tree under test (one {"n": m} per line of
\* IOEnv.MINED): progressions whose minimum, and whose range, is such a constant or a neighbour
MinedRecs == ndJsonDeserialize(IOEnv.MINED)
MinedNat == {MinedRecs[i].n : i \in 1..Len(MinedRecs)}
MinedShapes == {<<"lin", -1, m + d, 1, 0>> : m \in MinedNat, d \in {-1, 0, 1}}
               \cup {<<"lin", -1, 7, 1, m + d - 16>> : m \in MinedNat, d \in {-1, 0, 1}}
MinedCodecs == {<<"for", 0>>, <<"pfor", 95>>, <<"delta_u", 0>>, <<"bp64", 0>>, <<"adaptive", -1>>}
\* neighbours exactly 2^63, 2^63 -+ 1, 2^62 apart (bits 0-1), from 0 or 5 (bit 2), ascending or descending (bit 3)
HalfStepShapes == {<<"halfstep", p>> : p \in 0..15}
DeltaCodecs == {"delta_u", "delta_s", "adaptive", "bpd64", "for", "pfor", "bp64", "edelta"}
AllShapes == RunBoundaryShapes \cup HalfStepShapes \cup MinedShapes \cup CoreShapes \cup WidthShapes \cup OrderShapes \cup RepeatShapes \cup WideShapes
             \cup PatchShapes \cup SamplerShapes \cup MinAtShapes \cup ZeroBlockShapes
P(sh, i) == IF Len(sh) >= i + 1 THEN sh[i + 1] ELSE 0
HeaderCodecs == {"for", "for_batch", "pfor", "delta_u", "delta_s", "adaptive"}
BlockCodecs == {"bp32", "bp64", "bpd32", "bpd64", "for", "pfor", "adaptive"}
\* worst cases of the size bounds (C03)
WorstShapes == WideShapes \cup {<<"outlast", 0>>, <<"outfirst", 0>>, <<"runs", 1>>, <<"runs", 241>>,
                                <<"fewuniq", 257>>, <<"periodic", 10>>, <<"periodic", 20>>, <<"altbits", 64>>,
                                <<"marker", 0>>, <<"marker", 4>>, <<"randw", 0>>}
               \* size predictors switch at the width boundaries: values of exactly 2^b - 1
               \cup {<<"altbits", b>> : b \in {8, 16, 24, 32, 40, 48, 56}}

Applicable(c, n, s) ==
  CASE Purpose = "c03" ->
         /\ \/ s \in WorstShapes
            \* size predictors add up tagged lengths of minima, dictionary entries, run values: exactly 2^24, 2^32, ...
            \/ s \in MinAtShapes /\ n \in {2, 17} /\ c[1] \in (HeaderCodecs \cup {"dict", "dict_with", "rle", "rle_hdr"})
            \/ s \in RunBoundaryShapes /\ n \in {2288, 2289, 4097} /\ c[1] \in {"rle", "rle_hdr"}
         /\ (s[1] = "periodic" => (c[1] = "adaptive" /\ n >= 2287))
         /\ (n > 4097 => s \in {<<"nine", 0>>, <<"outlast", 0>>, <<"periodic", 10>>})
         /\ ((s[1] = "altbits" /\ s[2] # 64) => n \in CoreLensOf(c))
    [] OTHER ->
         /\ \/ n \in CoreLensOf(c) /\ s \in AllShapes
            \/ s \in CoreShapes
            \/ c[1] = "adaptive" /\ n \in SamplerLens /\ s \in (SamplerShapes \cup OrderShapes \cup {<<"fewuniq", 3>>, <<"cluster", 49>>})
            \/ Thorough /\ n \in BoundaryLens /\ n <= 2289 /\ s \in AllShapes /\ ~(s \in MinedShapes)
            \/ c[1] \in {"pfor", "adaptive"} /\ n \in {127, 256, 2288} /\ s \in PatchShapes
            \/ c[1] \in {"rle", "rle_hdr", "dict", "adaptive"} /\ n \in {241, 2288} /\ s \in RepeatShapes
            \/ c[1] \in HeaderCodecs /\ n \in {2, 17, 241} /\ s \in MinAtShapes
            \/ c[1] \in DeltaCodecs /\ n \in {2, 3, 17} /\ s \in HalfStepShapes
            \/ c[1] \in RunCodecs /\ n \in {2288, 2289, 4097} /\ s \in RunBoundaryShapes
            \/ c \in MinedCodecs /\ n = 17 /\ s \in MinedShapes /\ Purpose \in {"c02", "c06", "c16"}
            \/ c[1] \in BlockCodecs /\ n \in {128, 129, 130, 256, 257, 385} /\ s \in ZeroBlockShapes
         /\ (s \in MinAtShapes \/ ~(s \in MinedShapes) \/ (c \in MinedCodecs /\ n = 17 /\ Purpose \in {"c02", "c06", "c16"}))
         /\ (s \in MinAtShapes => c[1] \in HeaderCodecs /\ n \in {2, 17, 241})
         /\ (s \in HalfStepShapes => c[1] \in DeltaCodecs /\ n \in {2, 3, 17})
         /\ (s \in RunBoundaryShapes => c[1] \in RunCodecs /\ n \in {2288, 2289, 4097})
         /\ (s \in ZeroBlockShapes => c[1] \in BlockCodecs /\ n \in {128, 129, 130, 256, 257, 385})
         /\ (s[1] = "periodic" => n >= 2287)
         /\ (n > 4097 => s \in CoreShapes \cup SamplerShapes \cup OrderShapes \cup {<<"fewuniq", 3>>, <<"cluster", 49>>})

VARIABLES stage, codec, len, shape
vars == <<stage, codec, len, shape>>

None == <<"none", 0>>
Init == stage = 0 /\ codec = None /\ len = 0 /\ shape = None
PickCodec == /\ stage = 0 /\ stage' = 1 /\ codec' \in Codecs /\ UNCHANGED <<len, shape>>
PickLen == /\ stage = 1 /\ stage' = 2 /\ len' \in Lens(codec) /\ UNCHANGED <<codec, shape>>
PickShape == /\ stage = 2 /\ stage' = 3
             /\ shape' \in {s \in AllShapes : Applicable(codec, len, s)}
             /\ PrintT(<<"SCEN", codec[1], codec[2], len, shape'[1], shape'[2], P(shape', 2), P(shape', 3), P(shape', 4)>>)
             /\ UNCHANGED <<codec, len>>
RunMega == IF Thorough THEN {<<<<c, 0>>, 67826, <<"runs", r>>>> : c \in {"rle", "rle_hdr"}, r \in {67823, 67824}} ELSE {}
\* one run longer than 2^32 elements against the exact size predictor (the driver maps the zeros; length 1 here)
GiantMega == IF Thorough THEN {<<<<"rle", 0>>, 1, <<"giantrun", 0>>>>} ELSE {}
PickMega == /\ stage = 0 /\ Purpose \in {"c06", "c02", "c03"} /\ stage' = 3
            /\ \E m \in (IF Purpose = "c06" THEN MegaScenarios ELSE IF Purpose = "c02" THEN RunMega ELSE GiantMega) :
                 /\ codec' = m[1] /\ len' = m[2] /\ shape' = m[3]
                 /\ PrintT(<<"SCEN", m[1][1], m[1][2], m[2], m[3][1], m[3][2], 0, 0, 0>>)
Next == PickCodec \/ PickLen \/ PickShape \/ PickMega
Spec == Init /\ [][Next]_vars

\* every leaf is a well-formed scenario
TypeOK == /\ stage \in 0..3
          /\ stage = 3 => ((codec \in Codecs /\ len \in Lens(codec) /\ Applicable(codec, len, shape))
                            \/ <<codec, len, shape>> \in (MegaScenarios \cup RunMega \cup GiantMega))
=============================================================================
