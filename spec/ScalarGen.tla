----------------------------- MODULE ScalarGen -----------------------------
(***************************************************************************)
(* Boundary domain B, generated from the specification's own threshold     *)
(* tables (ScalarBytes!DocMax, SplitSpec): every documented per-length     *)
(* maximum of every family +-2, 2^k +-2, byte patterns 0x01/7F/80/FF in    *)
(* every position over 00/FF background, all v < Dense.  Written sorted to *)
(* IOEnv.VALUES; ScalarModel.tla model-checks the formats on it and the C  *)
(* driver feeds the same values to the implementation.  A moved threshold  *)
(* in the spec moves the test inputs with it.                              *)
(***************************************************************************)
EXTENDS ScalarBytes, SequencesExt, FiniteSetsExt, TLC, Json, IOUtils
CONSTANTS Dense          \* every value below Dense is in B
\* integer constants occurring in the sources of the tree under test (tools/vlib.py mined_constants),
\* one {"w": [8 little-endian bytes]} per line of IOEnv.MINED
MinedRecs == ndJsonDeserialize(IOEnv.MINED)
Mined == {MinedRecs[i].w : i \in 1..Len(MinedRecs)}

Near(w) == {w, Add(w, W(1)), Add(w, W(2)), Sub(w, W(1)), Sub(w, W(2))}
BDoc == UNION {Near(DocMax(f, n)) : <<f, n>> \in {<<g, m>> \in Families \X (1..9) : m >= MinLen(g) /\ m <= MaxLen(g)}}
\* every point where a case analysis of the reference formats switches branch, not only the
\* per-length maxima: the second-type payload of a split family changes byte width at
\* offset + 256^k (that is where the never-shrink rule of split-full lives), tagged/chained
\* groups at 2^(7k), and each first-type level starts at its offset
BVar == UNION {Near(Add(W(SplitSpec[f].vsub), OnesBytes(k))) : <<f, k>> \in SplitFams \X (1..7)}
        \cup UNION {Near(W(SplitSpec[f].lv[i].sub)) : <<f, i>> \in {<<g, j>> \in SplitFams \X (1..3) : j <= Len(SplitSpec[g].lv)}}
        \cup UNION {Near(PowW(7 * k)) : k \in 1..9}
BPow == UNION {Near(PowW(k)) : k \in 0..63}
BPat == {[i \in 1..8 |-> IF i = p THEN b ELSE c] : <<p, b, c>> \in (1..8) \X {1, 127, 128, 255} \X {0, 255}}
         \cup {[i \in 1..8 |-> IF i <= p THEN 128 ELSE 0] : p \in 1..8}
         \cup {[i \in 1..8 |-> IF i <= p THEN 127 ELSE 0] : p \in 1..8}
BSmall == {W(n) : n \in 0..(Dense - 1)}
BMined == UNION {Near(m) : m \in Mined}
B == BDoc \cup BVar \cup BPow \cup BPat \cup BSmall \cup BMined \cup {Zero, AllOnes}
BSeq == SetToSortSeq(B, Lt)
NB == Len(BSeq)

ASSUME ndJsonSerialize(IOEnv.VALUES, BSeq)
ASSUME PrintT(<<"BOUNDARY", NB>>)


VARIABLE x
Init == x = 0
Next == x' = x
=============================================================================
