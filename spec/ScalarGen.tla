----------------------------- MODULE ScalarGen -----------------------------
(***************************************************************************)
(* Boundary domain B, generated from the specification's own threshold     *)
(* tables (ScalarBytes!DocMax, SplitSpec): every documented per-length     *)
(* maximum of every family +-2, 2^k +-2, byte patterns 0x01/7F/80/FF in    *)
(* every position over 00/FF background, all v < Dense.  Written sorted to *)
(* IOEnv.VALUES; ScalarModel.tla model-checks the formats on it and the C  *)
(* driver feeds the same values to the implementation.  A moved threshold  *)
(* in the spec moves the test inputs with it.                              *)
(***************************************************************************)
EXTENDS ScalarBytes, SequencesExt, FiniteSetsExt, TLC, Json, IOUtils
CONSTANTS Dense          \* every value below Dense is in B

Near(w) == {w, Add(w, W(1)), Add(w, W(2)), Sub(w, W(1)), Sub(w, W(2))}
BDoc == UNION {Near(DocMax(f, n)) : <<f, n>> \in {<<g, m>> \in Families \X (1..9) : m >= MinLen(g) /\ m <= MaxLen(g)}}
BPow == UNION {Near(PowW(k)) : k \in 0..63}
BPat == {[i \in 1..8 |-> IF i = p THEN b ELSE c] : <<p, b, c>> \in (1..8) \X {1, 127, 128, 255} \X {0, 255}}
         \cup {[i \in 1..8 |-> IF i <= p THEN 128 ELSE 0] : p \in 1..8}
         \cup {[i \in 1..8 |-> IF i <= p THEN 127 ELSE 0] : p \in 1..8}
BSmall == {W(n) : n \in 0..(Dense - 1)}
B == BDoc \cup BPow \cup BPat \cup BSmall \cup {Zero, AllOnes}
BSeq == SetToSortSeq(B, Lt)
NB == Len(BSeq)

ASSUME ndJsonSerialize(IOEnv.VALUES, BSeq)
ASSUME PrintT(<<"BOUNDARY", NB>>)


VARIABLE x
Init == x = 0
Next == x' = x
=============================================================================
