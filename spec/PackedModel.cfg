SPECIFICATION Spec
CONSTANTS Depth = 5
Vals = {0, 1, 5, 7}
INVARIANTS Sorted Bounded
CHECK_DEADLOCK FALSE
