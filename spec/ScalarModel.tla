---------------------------- MODULE ScalarModel ----------------------------
(***************************************************************************)
(* Exhaustive-small model of the scalar varint formats (C01, C04, C05).    *)
(* TLC walks the boundary domain B that is GENERATED FROM THE SPEC'S OWN   *)
(* THRESHOLD TABLES (every documented per-length maximum of every family   *)
(* +-2, 2^k +-1, byte patterns, all v < Dense) and checks on the           *)
(* specification: round trip, agreeing bounded lengths, first byte         *)
(* announces the length, documented maxima, canonical/shortest, monotone   *)
(* length, memcmp order of tagged, prefix-freeness.  The same B is written *)
(* out (ValuesFile) and drives the real code; the trace spec then compares *)
(* the code with these same operators.                                     *)
(***************************************************************************)
EXTENDS ScalarBytes, SequencesExt, FiniteSetsExt, TLC, Json, IOUtils

FamSeq == <<"tagged", "ext", "extbe", "chained", "csimple", "split", "splitfull", "splitnz", "split16">>

ValuesFile == IOEnv.VALUES
BSeq == ndJsonDeserialize(ValuesFile)      \* written by ScalarGen.tla, sorted ascending
NB == Len(BSeq)
ASSUME PrintT(<<"BOUNDARY", NB>>)
ASSUME \A k \in 1..(NB - 1) : Lt(BSeq[k], BSeq[k + 1])

(* documented maxima are really the maxima of their length class *)
ASSUME \A f \in Families : \A n \in MinLen(f)..MaxLen(f) :
          /\ SLen(f, DocMax(f, n)) = n
          /\ n < MaxLen(f) => SLen(f, Add(DocMax(f, n), W(1))) = n + 1

VARIABLES i, fi
vars == <<i, fi>>
f == FamSeq[IF fi = 0 THEN 1 ELSE fi]
a == BSeq[IF i <= 0 THEN 1 ELSE i]
b == BSeq[IF i <= 0 THEN 1 ELSE IF i < NB THEN i + 1 ELSE i]

\* fan-out enumeration (three levels so that 16 workers share the work):
\* start -> family -> block of 32 values -> value
Blk == 32
Init == i = 0 /\ fi = 0
PickFam == i = 0 /\ fi = 0 /\ fi' \in 1..Len(FamSeq) /\ i' = 0
PickBlock == i = 0 /\ fi > 0 /\ fi' = fi /\ i' \in {-k : k \in 1..((NB + Blk - 1) \div Blk)}
PickValue == i < 0 /\ fi' = fi /\ i' \in {k \in ((-i - 1) * Blk + 1)..((-i) * Blk) : k <= NB}
Next == PickFam \/ PickBlock \/ PickValue
Spec == Init /\ [][Next]_vars

(* C01 on the specification *)
RoundTrip == Accepts(f, a) => SDec(f, SEnc(f, a), SLen(f, a)) = a
LenAgrees == Accepts(f, a) =>
               /\ Len(SEnc(f, a)) = SLen(f, a)
               /\ SLen(f, a) \in MinLen(f)..MaxLen(f)
               /\ SelfDescribing(f) => LenFromFirst(f, SEnc(f, a)[1]) = SLen(f, a)
               /\ f = "chained" => ChainedLenOfBytes(SEnc(f, a) \o <<0,0,0,0,0,0,0,0,0>>) = SLen(f, a)
FixedRoundTrip == f \in {"tagged", "ext", "extbe"} =>
                    \A w \in 1..9 : FixedLegal(f, a, w) =>
                        /\ Len(EncFixed(f, a, w)) = w
                        /\ SDec(f, EncFixed(f, a, w), w) = a
                        /\ f = "tagged" => TaggedLenFromFirst(EncFixed(f, a, w)[1]) = w
(* C04 on the specification: shortest, monotone, injective on neighbours *)
Monotone == (Accepts(f, a) /\ Accepts(f, b)) => SLen(f, a) <= SLen(f, b)
Shortest == Accepts(f, a) =>
               \A n \in MinLen(f)..MaxLen(f) : (n < SLen(f, a) => Lt(DocMax(f, n), a))
Injective == (a # b /\ Accepts(f, a) /\ Accepts(f, b)) => SEnc(f, a) # SEnc(f, b)
(* C05 on the specification: adjacent elements of the sorted domain; the
   order on all of B follows by transitivity of lexicographic order *)
\* bridge to TaggedMath.tla (Apalache, all 2^64 values): the arithmetic form it reasons about -- first byte and
\* payload read as one big-endian number, the two-byte form as 241*256 + v - 240 -- denotes these very bytes
KeyBytes(v) ==
  LET n == TaggedLen(v) IN
  CASE n = 1 -> << v[1] >>
    [] n = 2 -> BEBytes(Add(v, W(241 * 256 - 240)), 2)
    [] n = 3 -> << 249 >> \o BEBytes(Sub(v, W(2288)), 2)
    [] OTHER -> << 246 + n >> \o BEBytes(v, n - 1)
KeyBridge == f = "tagged" => KeyBytes(a) = TaggedEnc(a)

TaggedOrder == (f = "tagged" /\ a # b) =>
                 /\ Memcmp(TaggedEnc(a), TaggedEnc(b)) = -1
                 /\ Memcmp(TaggedEnc(b), TaggedEnc(a)) = 1
                 /\ Memcmp(TaggedEnc(a), TaggedEnc(a)) = 0
TaggedPrefixFree == (f = "tagged" /\ a # b) =>
                 /\ ~IsPrefix(TaggedEnc(a), TaggedEnc(b))
                 /\ ~IsPrefix(TaggedEnc(b), TaggedEnc(a))
(* bounded reader is total and exact on every truncation *)
BoundedReader == f = "tagged" =>
                 \A n \in 0..10 : LET z == TaggedEnc(a) \o <<0,0,0,0,0,0,0,0,0>>
                                      r == TaggedGetBounded(z, n)
                                  IN IF n >= TaggedLen(a) THEN r = [len |-> TaggedLen(a), val |-> a]
                                     ELSE r.len = 0
(* signed helpers / zigzag on the specification *)
ZigZagRT == UnZigZag(ZigZag(a)) = a /\ ZigZag(UnZigZag(a)) = a
=============================================================================
