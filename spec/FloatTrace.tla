----------------------------- MODULE FloatTrace -----------------------------
(***************************************************************************)
(* Trace specification for the float codec (C07): every element of every   *)
(* encode/decode round trip is judged by FloatCodec!Reproduced; automatic  *)
(* selection by FloatCodec!AutoOK; plus the size bound (C03) and "decoder  *)
(* consumes what the encoder wrote" (C16).                                 *)
(***************************************************************************)
EXTENDS FloatCodec, TLC, Json, IOUtils
Tr == ndJsonDeserialize(IOEnv.TRACE)
NT == Len(Tr)
VARIABLE l
Bad(cond, prop, why) == IF cond THEN {} ELSE {<<prop, why>>}

(* one very long array (thorough tier): more than 2^32 packed mantissa bits in one call.  The values are not
   logged; the driver reports the index of the first element whose decoded bit pattern differs (-1: none). *)
GiantFails(ev) ==
  Bad(ev.fault = 0 /\ ev.dfault = 0, "C07", "float encode/decode of a very long array crashed or overran an exact-size buffer")
  \cup Bad(ev.fault # 0 \/ (ev.written >= 1 /\ ev.written <= ev.bound), "C03",
           "float encoder wrote more than varintFloatMaxEncodedSize for a very long array")
  \cup Bad(ev.fault # 0 \/ ev.dfault # 0 \/ ev.consumed = ev.written, "C16",
           "float decoder consumed a different number of bytes than were written (very long array)")
  \cup Bad(ev.fault # 0 \/ ev.dfault # 0 \/ ev.mismatch = -1, "C07",
           "full precision is not bit-exact beyond 2^32 packed bits")

Fails(ev) ==
  IF ev.e = "FGiant" THEN GiantFails(ev) ELSE
  IF ev.fault # 0 \/ ev.dfault # 0
  THEN {<<"C07", "float encode/decode crashed or overran an exact-size buffer">>}
       \* the destination is exactly varintFloatMaxEncodedSize bytes ending at a guard page
       \cup (IF ev.fault # 0 THEN {<<"C03", "float encoder wrote beyond a destination of exactly the advertised size">>} ELSE {})
  ELSE Bad(ev.written >= 1 /\ ev.written <= ev.bound, "C03", "float encoder wrote more than varintFloatMaxEncodedSize")
       \cup Bad(ev.consumed = ev.written, "C16", "float decoder consumed a different number of bytes than were written")
       \cup Bad(Len(ev.ys) = Len(ev.xs), "C07", "decoder produced no output")
       \cup (IF Len(ev.ys) # Len(ev.xs) THEN {}
             ELSE LET bad == {i \in 1..Len(ev.xs) : ~Reproduced(ev.xs[i], ev.ys[i], ev.prec)} IN
                  IF bad = {} THEN {}
                  ELSE LET i == CHOOSE k \in bad : TRUE IN
                       {<<"C07", IF ev.prec = 0 THEN "full precision is not bit-exact"
                                 ELSE IF IsSpecial(ev.xs[i]) THEN "a special value is not reproduced exactly"
                                 ELSE "reduced precision exceeds the published relative error bound">>})
       \cup Bad(ev.auto = 0 \/ AutoOK(ev.req, ev.prec), "C07",
                "automatic selection picked a precision whose error bound exceeds the requested error")

Init == l = 1
Next == /\ l <= NT
        /\ \A x \in Fails(Tr[l]) : PrintT(<<"REJECT", l, x[1], x[2]>>)
        /\ l' = l + 1
Spec == Init /\ [][Next]_l
=============================================================================
