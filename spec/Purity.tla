------------------------------- MODULE Purity -------------------------------
(***************************************************************************)
(* "Results depend only on the arguments" (C15) as a state machine.        *)
(* The hidden context ctx = <<stack residue, heap residue, previous call>> *)
(* is changed by PaintStack / PaintHeap / Prev; Call(c) yields a result.   *)
(* In the design the documentation promises, the result is F(c): the       *)
(* invariant Pure says every call class has had one result over all        *)
(* reachable contexts.  ReadsResidue = TRUE models a callee that reads an  *)
(* uninitialised local (result depends on ctx) -- the negative control.    *)
(* TLC enumerates every schedule Paint* Prev* Call of length <= Depth and  *)
(* prints it as a SCHED line; the driver realises each on the real code.   *)
(***************************************************************************)
EXTENDS Integers, Sequences, TLC, FiniteSets

CONSTANTS Depth, ReadsResidue

StackPats == {"zero", "ones", "a5", "count", "countm1", "rand"}
\* residue left in freed blocks of the sizes the call will ask for, and blocks handed out pre-filled
HeapPats == {"zero", "ones", "count", "fill00", "fillA1", "fill7F", "fillFE"}
\* same_buffer: the previous call read the SAME input buffer (address, length, first and last element) holding
\* other contents -- what a caller that refills one buffer does, and what an address-keyed memo cannot tell apart
PrevKinds == {"same_api_same_count", "same_api_other_count", "other_api", "same_buffer"}
Calls == {"c1", "c2"}

VARIABLES ctx, sched, memo
vars == <<ctx, sched, memo>>
Init == ctx = <<"none", "none", "none">> /\ sched = <<>> /\ memo = [c \in Calls |-> {}]

F(c) == IF c = "c1" THEN 11 ELSE 22
Result(c) == IF ReadsResidue THEN <<F(c), ctx[1]>> ELSE <<F(c)>>

NotDone == TRUE
PaintStack(p) == NotDone /\ Len(sched) < Depth /\ ctx' = <<p, ctx[2], ctx[3]>> /\ sched' = Append(sched, <<"stack", p>>) /\ UNCHANGED memo
PaintHeap(p) == NotDone /\ Len(sched) < Depth /\ ctx' = <<ctx[1], p, ctx[3]>> /\ sched' = Append(sched, <<"heap", p>>) /\ UNCHANGED memo
Prev(k) == NotDone /\ Len(sched) < Depth /\ ctx' = <<ctx[1], ctx[2], k>> /\ sched' = Append(sched, <<"prev", k>>) /\ UNCHANGED memo
\* a call ends one schedule; the next schedule starts from the residue it leaves (ctx persists)
Call(c) == /\ memo' = [memo EXCEPT ![c] = @ \cup {Result(c)}]
           /\ sched' = <<>>
           /\ (c = "c1" => PrintT(<<"SCHED", sched>>))
           /\ UNCHANGED ctx
Next == \/ \E p \in StackPats : PaintStack(p)
        \/ \E p \in HeapPats : PaintHeap(p)
        \/ \E k \in PrevKinds : Prev(k)
        \/ \E c \in Calls : Call(c)
Spec == Init /\ [][Next]_vars
Pure == \A c \in Calls : Cardinality(memo[c]) <= 1
=============================================================================
