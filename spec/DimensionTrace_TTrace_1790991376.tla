---- MODULE DimensionTrace_TTrace_1790991376 ----
EXTENDS Sequences, TLCExt, DimensionTrace, Toolbox, Naturals, TLC

_expression ==
    LET DimensionTrace_TEExpression == INSTANCE DimensionTrace_TEExpression
    IN DimensionTrace_TEExpression!expression
----

_trace ==
    LET DimensionTrace_TETrace == INSTANCE DimensionTrace_TETrace
    IN DimensionTrace_TETrace!trace
----

_inv ==
    ~(
        TLCGet("level") = Len(_TETrace)
        /\
        mat = (<<>>)
        /\
        l = (3)
    )
----

_init ==
    /\ l = _TETrace[1].l
    /\ mat = _TETrace[1].mat
----

_next ==
    /\ \E i,j \in DOMAIN _TETrace:
        /\ \/ /\ j = i + 1
              /\ i = TLCGet("level")
        /\ l  = _TETrace[i].l
        /\ l' = _TETrace[j].l
        /\ mat  = _TETrace[i].mat
        /\ mat' = _TETrace[j].mat

\* Uncomment the ASSUME below to write the states of the error trace
\* to the given file in Json format. Note that you can pass any tuple
\* to `JsonSerialize`. For example, a sub-sequence of _TETrace.
    \* ASSUME
    \*     LET J == INSTANCE Json
    \*         IN J!JsonSerialize("DimensionTrace_TTrace_1790991376.json", _TETrace)

=============================================================================

 Note that you can extract this module `DimensionTrace_TEExpression`
  to a dedicated file to reuse `expression` (the module in the 
  dedicated `DimensionTrace_TEExpression.tla` file takes precedence 
  over the module `DimensionTrace_TEExpression` below).

---- MODULE DimensionTrace_TEExpression ----
EXTENDS Sequences, TLCExt, DimensionTrace, Toolbox, Naturals, TLC

expression == 
    [
        \* To hide variables of the `DimensionTrace` spec from the error trace,
        \* remove the variables below.  The trace will be written in the order
        \* of the fields of this record.
        l |-> l
        ,mat |-> mat
        
        \* Put additional constant-, state-, and action-level expressions here:
        \* ,_stateNumber |-> _TEPosition
        \* ,_lUnchanged |-> l = l'
        
        \* Format the `l` variable as Json value.
        \* ,_lJson |->
        \*     LET J == INSTANCE Json
        \*     IN J!ToJson(l)
        
        \* Lastly, you may build expressions over arbitrary sets of states by
        \* leveraging the _TETrace operator.  For example, this is how to
        \* count the number of times a spec variable changed up to the current
        \* state in the trace.
        \* ,_lModCount |->
        \*     LET F[s \in DOMAIN _TETrace] ==
        \*         IF s = 1 THEN 0
        \*         ELSE IF _TETrace[s].l # _TETrace[s-1].l
        \*             THEN 1 + F[s-1] ELSE F[s-1]
        \*     IN F[_TEPosition - 1]
    ]

=============================================================================



Parsing and semantic processing can take forever if the trace below is long.
 In this case, it is advised to uncomment the module below to deserialize the
 trace from a generated binary file.

\*
\*---- MODULE DimensionTrace_TETrace ----
\*EXTENDS IOUtils, DimensionTrace, TLC
\*
\*trace == IODeserialize("DimensionTrace_TTrace_1790991376.bin", TRUE)
\*
\*=============================================================================
\*

---- MODULE DimensionTrace_TETrace ----
EXTENDS DimensionTrace, TLC

trace == 
    <<
    ([mat |-> <<>>,l |-> 1]),
    ([mat |-> <<>>,l |-> 2]),
    ([mat |-> <<>>,l |-> 3])
    >>
----


=============================================================================

---- CONFIG DimensionTrace_TTrace_1790991376 ----

INVARIANT
    _inv

CHECK_DEADLOCK
    \* CHECK_DEADLOCK off because of PROPERTY or INVARIANT above.
    FALSE

INIT
    _init

NEXT
    _next

CONSTANT
    _TETrace <- _trace

ALIAS
    _expression
=============================================================================
\* Generated on Sat Oct 03 01:36:18 UTC 2026