--------------------------- MODULE DimensionTrace ---------------------------
(***************************************************************************)
(* Trace specification for dimension headers and matrix cells (C10).       *)
(* Header / packed events are judged against Dimension.tla; a cell write   *)
(* is judged on what changed in the accessible memory (every changed byte  *)
(* must lie inside the addressed cell, so no other cell and no header byte *)
(* changes), on the cell's bytes, the value read back, and -- carrying the *)
(* matrix content as state across a write sequence -- on re-reading an     *)
(* earlier cell.                                                           *)
(***************************************************************************)
EXTENDS Dimension, TLC, Json, IOUtils
Tr == ndJsonDeserialize(IOEnv.TRACE)
NT == Len(Tr)
VARIABLES l, mat
vars == <<l, mat>>
Bad(cond, prop, why) == IF cond THEN {} ELSE {<<prop, why>>}

Fill(k) == (177 + 3 * k) % 256       \* driver's header prefill, k 0-based

HdrFails(ev) ==
  LET rows == ev.rows  cols == ev.cols  n == HeaderLen(rows, cols) IN
  Bad(ev.fault = 0, "C10", "header encode crashed")
  \cup Bad(ev.dim = PairByte(rows, cols, 0) /\ ev.dim2 = ev.dim, "C10", "width pair byte is not rows<<4 | (cols-1)<<1")
  \cup Bad(ev.wr = RowWidth(rows), "C10", "row width decoded from the pair byte differs from the encoded width")
  \cup Bad(ev.wc = ColWidth(cols), "C10", "column width decoded from the pair byte differs from the encoded width")
  \cup Bad(ev.len = n, "C10", "announced header length is not the sum of the widths")
  \cup Bad(ev.sparse = 0, "C10", "dense header decodes as sparse")
  \cup Bad(SubSeq(ev.hdr, 1, n) = HeaderBytes(rows, cols), "C10", "header bytes are not LE rows then LE cols")
  \cup Bad(\A k \in n..(Len(ev.hdr) - 1) : ev.hdr[k + 1] = Fill(k), "C10", "header occupies more than the announced bytes")

PackFails(ev) ==
  LET ok == PackOK(ev.rows, ev.cols) IN
  Bad(ev.fault = 0, "C10", "pack crashed")
  \cup Bad((ev.ok = 1) = ok, "C10", "pack accepts/rejects a pair it should not")
  \cup (IF ~ok \/ ev.ok = 0 THEN {}
        ELSE Bad(ev.level = PackLevel(ev.rows, ev.cols) /\ ev.packed = Packed(ev.rows, ev.cols), "C10",
                 "packed integer is not rows above cols at 4 bits per level")
             \cup Bad(ev.ur = ev.rows /\ ev.uc = ev.cols /\ ev.mr = ev.rows /\ ev.mc = ev.cols, "C10",
                      "unpack does not return the packed pair"))

InCell(o, off, w) == LET d == SubB(o, off) IN d.borrow = 0 /\ Fits31(d.d) /\ N(d.d) < w
Lookup(m, r, c) == LET hit == {k \in 1..Len(m) : m[k].r = r /\ m[k].c = c} IN
                   IF hit = {} THEN <<>> ELSE m[CHOOSE k \in hit : TRUE].v
Update(m, r, c, v) == SelectSeq(m, LAMBDA e : ~(e.r = r /\ e.c = c)) \o <<[r |-> r, c |-> c, v |-> v]>>
P2b == <<1, 2, 4, 8, 16, 32, 64, 128>>

\* value stored by this event (bits: resulting bit as a word 0/1)
NewVal(ev) ==
  IF ev.kind # "bit" THEN ev.val
  ELSE IF ev.op = "SetBit" THEN ev.val
  ELSE W((ev.cell[1] \div P2b[ev.bitno + 1]) % 2)          \* Toggle: whatever the cell holds now

CellFails(ev, m) ==
  LET rows == ev.rows  cols == ev.cols  isbit == ev.kind = "bit"
      w == IF isbit THEN 1 ELSE ev.w
      want == IF isbit THEN BitByteOffset(rows, cols, N(ev.r), ev.c) ELSE CellOffset(rows, cols, N(ev.r), ev.c, w)
      m2 == Update(m, ev.r, ev.c, NewVal(ev))
  IN IF ~Fits31(ev.r) THEN {<<"C10", "H:row index too large for the harness">>}
     ELSE IF ev.off # want \/ (isbit /\ ev.bitno # BitInByte(cols, N(ev.r), ev.c))
     THEN {<<"C10", "H:driver's cell address differs from the documented address">>}
     ELSE IF ev.fault # 0 THEN {<<"C10", "cell access touched memory outside the addressed cell (or crashed)">>}
     ELSE Bad(\A k \in 1..Len(ev.diff) : InCell(ev.diff[k][1], ev.off, w), "C10",
              "a write changed a byte outside the addressed cell (another cell or the header)")
          \cup (IF isbit
                THEN LET bit == (ev.cell[1] \div P2b[ev.bitno + 1]) % 2
                         old == IF ev.diff = <<>> THEN ev.cell[1] ELSE ev.diff[1][2]
                         oldbit == (old \div P2b[ev.bitno + 1]) % 2
                         others == (old - oldbit * P2b[ev.bitno + 1]) = (ev.cell[1] - bit * P2b[ev.bitno + 1])
                     IN Bad(others, "C10", "a bit write changed another bit of the byte")
                        \cup Bad(ev.op # "SetBit" \/ W(bit) = ev.val, "C10",
                                 IF ev.val = Zero THEN "setting a bit to false does not clear it" ELSE "setting a bit to true does not set it")
                        \cup Bad(ev.op # "Toggle" \/ (bit = 1 - oldbit /\ ev.ret = oldbit), "C10",
                                 "toggle does not flip the bit and return the previous value")
                        \cup Bad(ev.got = W(bit), "C10", "bit read differs from memory")
                ELSE Bad(ev.kind = "half" \/ ev.cell = LEBytes(ev.val, w), "C10", "cell bytes are not the written value")
                     \cup Bad(ev.got = ev.val, "C10", "read of the written cell returns a different value"))
          \cup Bad(ev.have_probe = 0 \/ Lookup(m2, ev.pr, ev.pc) = <<>> \/ ev.probe = Lookup(m2, ev.pr, ev.pc), "C10",
                   "an earlier cell no longer holds the value written to it")

Fails(ev, m) == CASE ev.e = "DimHdr" -> HdrFails(ev)
                  [] ev.e = "DimPack" -> PackFails(ev)
                  [] ev.e = "DimCell" -> CellFails(ev, m)
                  [] ev.e = "DimNew" -> {}
                  [] OTHER -> {<<"ANY", "H:unknown event kind">>}
Init == l = 1 /\ mat = <<>>
Next == /\ l <= NT
        /\ LET ev == Tr[l] IN
           /\ \A x \in Fails(ev, mat) : PrintT(<<"REJECT", l, x[1], x[2]>>)
           /\ mat' = IF ev.e = "DimNew" THEN <<>>
                     ELSE IF ev.e = "DimCell" /\ ev.fault = 0 /\ ev.have_probe + 1 > 0 /\ Len(ev.cell) > 0
                          THEN Update(mat, ev.r, ev.c, NewVal(ev)) ELSE mat
        /\ l' = l + 1
Spec == Init /\ [][Next]_vars
=============================================================================
