SPECIFICATION Spec
CONSTANTS Tier = "quick"
 Purpose = "c02"
INVARIANT TypeOK
CHECK_DEADLOCK FALSE
