---------------------------- MODULE PurityTrace ----------------------------
(***************************************************************************)
(* Trace specification for C15.  State: memo, the result each call class   *)
(* produced the first time it was observed.  Every later execution of the  *)
(* same class -- after any schedule of stack/heap painting and previous    *)
(* calls (Purity.tla), in this or another process -- must produce the same *)
(* bytes, length and decoded values: the result is a function of the       *)
(* arguments alone.                                                        *)
(***************************************************************************)
EXTENDS Integers, Sequences, TLC, Json, IOUtils
Tr == ndJsonDeserialize(IOEnv.TRACE)
NT == Len(Tr)
VARIABLES l, memo
vars == <<l, memo>>
Res(ev) == <<ev.fault, ev.written, ev.digest, ev.decoded, ev.ydigest, ev.head>>
Init == l = 1 /\ memo = <<>>
Known(id) == {k \in 1..Len(memo) : memo[k][1] = id}
Fails(ev) ==
  IF ev.e = "Uninit" THEN {<<"C15", "a result was computed from uninitialised memory (memcheck)">>}
  ELSE IF ev.fault # 0 THEN {<<"C15", "call crashed under a perturbed context">>}
  ELSE IF Known(ev.id) = {} THEN {}
  ELSE LET k == CHOOSE k \in Known(ev.id) : TRUE IN
       IF memo[k][2] = Res(ev) THEN {}
       ELSE {<<"C15", "same call, different result: the output depends on stack/heap residue or on earlier calls">>}
Next == /\ l <= NT
        /\ LET ev == Tr[l] IN
           /\ \A x \in Fails(ev) : PrintT(<<"REJECT", l, x[1], x[2]>>)
           /\ memo' = IF ev.e = "Call" /\ Known(ev.id) = {} THEN Append(memo, <<ev.id, Res(ev)>>) ELSE memo
        /\ l' = l + 1
Spec == Init /\ [][Next]_vars
=============================================================================
