SPECIFICATION Spec
CONSTANTS Leaky = TRUE
MaxObjs = 2
Depth = 5
INVARIANTS NoLeak Consistent
CHECK_DEADLOCK FALSE
