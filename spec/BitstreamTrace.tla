--------------------------- MODULE BitstreamTrace ---------------------------
(***************************************************************************)
(* Trace specification for varintBitstreamSet/Get and the signed helpers   *)
(* (C11): each logged call is judged against Bitstream!SetSpec/GetSpec on  *)
(* the flat bit string, including every bit outside the written range;     *)
(* mode "tight" runs the call on exactly the words overlapping the range   *)
(* with a PROT_NONE page behind them (fault = a non-overlapping word was   *)
(* accessed).                                                              *)
(***************************************************************************)
EXTENDS Bitstream, TLC, Json, IOUtils
Tr == ndJsonDeserialize(IOEnv.TRACE)
NT == Len(Tr)
VARIABLE l
Bad(cond, prop, why) == IF cond THEN {} ELSE {<<prop, why>>}

SignedFits(x, w) == BitLen(Abs(x)) <= w - 1

Fails(ev) ==
  IF ev.e = "Bs" THEN
    IF ev.fault # 0 THEN {<<"C11", IF ev.mode = "tight" THEN "a word not overlapping the written range was accessed"
                                    ELSE "bitstream call crashed">>}
    ELSE LET want == SetSpec(ev.pre, ev.off, ev.width, ev.val)
             nbits == 8 * Len(ev.pre)
             inside == {g \in 0..(nbits - 1) : ev.off <= g /\ g < ev.off + ev.width}
         IN Bad(Len(ev.post) = Len(ev.pre), "C11", "H:image sizes differ")
            \cup Bad(\A g \in inside : StreamBit(ev.post, g) = want[g], "C11", "written bits are not the value")
            \cup Bad(\A g \in (0..(nbits - 1)) \ inside : StreamBit(ev.post, g) = want[g], "C11",
                     "a bit outside the written range changed")
            \cup Bad(ev.got = ev.val, "C11", "read at the same offset and width does not return the written value")
            \cup Bad(ev.got = GetSpec(ev.post, ev.off, ev.width), "C11", "read differs from the bits in memory")
  ELSE IF ev.e = "BsSigned" THEN
    IF ~SignedFits(ev.x, ev.width) THEN {<<"C11", "H:value not representable">>}
    ELSE Bad(ev.restored = ev.x, "C11", "signed helper did not restore the value")
  ELSE {<<"ANY", "H:unknown event kind">>}

Init == l = 1
Next == /\ l <= NT
        /\ \A x \in Fails(Tr[l]) : PrintT(<<"REJECT", l, x[1], x[2]>>)
        /\ l' = l + 1
Spec == Init /\ [][Next]_l
=============================================================================
