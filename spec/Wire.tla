-------------------------------- MODULE Wire --------------------------------
(***************************************************************************)
(* Byte-exact wire formats of the array codecs whose layout is a pure      *)
(* function of the values: frame-of-reference, patched frame-of-reference, *)
(* run-length (with and without count header), unsigned and signed delta,  *)
(* group, dictionary, Elias gamma/delta arrays, BP128 partial blocks.      *)
(* Enc(codec, xs) is the sequence of bytes the encoder is specified to     *)
(* produce for the sequence xs of 64-bit values (limb triples, Limbs.tla). *)
(*                                                                         *)
(* None of the listed properties fixes these layouts (they only demand     *)
(* that what is written can be read back, within the advertised size), so  *)
(* StoreTrace reports a disagreement as a NOTE ("wire drift", an unclaimed *)
(* conformance fact in the evidence), never as a violation.  The layouts   *)
(* matter to a user because data written by one release is read by the     *)
(* next; and a reader/writer pair that changes in step is invisible to     *)
(* every round-trip property.                                              *)
(***************************************************************************)
EXTENDS Limbs, FiniteSets

Flatten(ss) == FoldLeft(LAMBDA acc, s : acc \o s, <<>>, ss)
\* external (little-endian, minimal width) encoding preceded by its width byte
WidthPrefixed(a) == <<LByteWidth(a)>> \o LLE(a, LByteWidth(a))
\* zig-zag of the two's-complement value a: 2a for a >= 0, 2(-a) - 1 for a < 0
LDouble(a) == LAdd(a, a)
LZigZag(a) == IF LIsNeg(a) THEN LSub(LDouble(LSub(LZero, a)), LN(1)) ELSE LDouble(a)

(* frame of reference: tagged minimum, width byte, tagged count, offsets *)
ForEnc(xs) ==
  LET mn == LSeqMin(xs)
      w == LByteWidth(LSub(LSeqMax(xs), mn))
  IN LTaggedEnc(mn) \o <<w>> \o LTaggedEnc(LN(Len(xs)))
     \o Flatten([i \in 1..Len(xs) |-> LLE(LSub(xs[i], mn), w)])

(* run length: (tagged run length, tagged value) per maximal run *)
RunStarts(xs) == {i \in 1..Len(xs) : i = 1 \/ xs[i] # xs[i - 1]}
RunLenAt(xs, i) == LET nxt == {j \in RunStarts(xs) : j > i}
                   IN (IF nxt = {} THEN Len(xs) + 1 ELSE CHOOSE j \in nxt : \A k \in nxt : j <= k) - i
RleEnc(xs) == Flatten([i \in 1..Len(xs) |->
                 IF i \in RunStarts(xs) THEN LTaggedEnc(LN(RunLenAt(xs, i))) \o LTaggedEnc(xs[i]) ELSE <<>>])
RleHdrEnc(xs) == LTaggedEnc(LN(Len(xs))) \o RleEnc(xs)

(* delta: width-prefixed base, then width-prefixed zig-zag differences *)
DeltaUEnc(xs) == WidthPrefixed(xs[1])
                 \o Flatten([i \in 1..(Len(xs) - 1) |-> WidthPrefixed(LZigZag(LSub(xs[i + 1], xs[i])))])
DeltaSEnc(xs) == WidthPrefixed(LZigZag(xs[1]))
                 \o Flatten([i \in 1..(Len(xs) - 1) |-> WidthPrefixed(LZigZag(LSub(xs[i + 1], xs[i])))])

(* group: field count, 2-bit width codes (LSB first), values at 1/2/4/8 bytes *)
GWidth(x) == LET w == LByteWidth(x) IN IF w <= 1 THEN 1 ELSE IF w <= 2 THEN 2 ELSE IF w <= 4 THEN 4 ELSE 8
GCode(x) == CASE GWidth(x) = 1 -> 0 [] GWidth(x) = 2 -> 1 [] GWidth(x) = 4 -> 2 [] OTHER -> 3
Pow4(k) == CASE k = 0 -> 1 [] k = 1 -> 4 [] k = 2 -> 16 [] OTHER -> 64
GroupEnc(xs) ==
  LET n == Len(xs)
      nb == (2 * n + 7) \div 8
      bm == [b \in 1..nb |-> FoldLeft(LAMBDA acc, j : acc + (IF 4 * (b - 1) + j <= n
                                                             THEN GCode(xs[4 * (b - 1) + j]) * Pow4(j - 1) ELSE 0),
                                      0, <<1, 2, 3, 4>>)]
  IN <<n>> \o bm \o Flatten([i \in 1..n |-> LLE(xs[i], GWidth(xs[i]))])

(* dictionary: tagged size, tagged entries ascending, tagged count, fixed-width indices *)
Distinct(xs) == {xs[i] : i \in 1..Len(xs)}
SortedDistinct(xs) == SetToSortSeq(Distinct(xs), LLt)
IndexOf(d, x) == CHOOSE k \in 1..Len(d) : d[k] = x
DictEnc(xs) ==
  LET d == SortedDistinct(xs)
      iw == LByteWidth(LN(Len(d) - 1))
  IN LTaggedEnc(LN(Len(d))) \o Flatten([k \in 1..Len(d) |-> LTaggedEnc(d[k])])
     \o LTaggedEnc(LN(Len(xs))) \o Flatten([i \in 1..Len(xs) |-> LLE(LN(IndexOf(d, xs[i]) - 1), iw)])

(* ----------------------------------------------------------------------- *)
(* bit-level formats                                                        *)
LBit(a, k) == (LByte(a, k \div 8) \div (2 ^ (k % 8))) % 2      \* bit k (0 = least significant)
LBinMSB(a, n) == [i \in 1..n |-> LBit(a, n - i)]                 \* the n low bits, most significant first
LBinLSB(a, n) == [i \in 1..n |-> LBit(a, i - 1)]                 \* the n low bits, least significant first
Zeros(n) == [i \in 1..n |-> 0]
PadTo8(bits) == bits \o Zeros((8 - (Len(bits) % 8)) % 8)
\* bytes of a bit string whose first bit is the MOST significant bit of the first byte (Elias bit writer)
PackMSB(bits) == LET b == PadTo8(bits)
                 IN [k \in 1..(Len(b) \div 8) |-> FoldLeft(LAMBDA acc, j : 2 * acc + b[8 * (k - 1) + j], 0, <<1, 2, 3, 4, 5, 6, 7, 8>>)]
\* bytes of a bit string whose first bit is the LEAST significant bit of the first byte (BP128 blocks)
PackLSB(bits) == LET b == PadTo8(bits)
                 IN [k \in 1..(Len(b) \div 8) |-> FoldLeft(LAMBDA acc, j : 2 * acc + b[8 * (k - 1) + 9 - j], 0, <<1, 2, 3, 4, 5, 6, 7, 8>>)]

(* Elias gamma: floor(log2 N) zeros, then N in binary; Elias delta: gamma(bit length), then N without its
   leading one; an array is the concatenation of the codes, zero-padded to a whole byte *)
GammaCode(a) == LET n == LBitLen(a) - 1 IN Zeros(n) \o LBinMSB(a, n + 1)
EDeltaCode(a) == LET L == LBitLen(a) IN GammaCode(LN(L)) \o LBinMSB(a, L - 1)
GammaArrEnc(xs) == PackMSB(Flatten([i \in 1..Len(xs) |-> GammaCode(xs[i])]))
EDeltaArrEnc(xs) == PackMSB(Flatten([i \in 1..Len(xs) |-> EDeltaCode(xs[i])]))

(* BP128, fewer than 128 values (one partial block): 0x80 | bit width, count byte, values LSB-first at that
   width; the delta form stores the first value tagged and packs the successive differences *)
MaxBitLen(xs) == FoldLeft(LAMBDA acc, x : IF LBitLen(x) > acc THEN LBitLen(x) ELSE acc, 0, xs)
PartialBlock(ys) == LET w == MaxBitLen(ys)
                    IN <<128 + w, Len(ys)>> \o PackLSB(Flatten([i \in 1..Len(ys) |-> LBinLSB(ys[i], w)]))
Bp128Enc(xs) == PartialBlock(xs)
Bp128Enc64(xs) == LTaggedEnc(LN(Len(xs))) \o PartialBlock(xs)    \* the 64-bit form announces the count first
Bp128DeltaEnc(xs) == LTaggedEnc(xs[1])
                     \o (IF Len(xs) = 1 THEN <<>> ELSE PartialBlock([i \in 1..(Len(xs) - 1) |-> LSub(xs[i + 1], xs[i])]))

(* patched frame of reference at percentile t: tagged minimum, width byte, tagged count, one slot of `width'
   bytes per value (offset from the minimum, or all ones for a value above the percentile value), tagged
   exception count, then (tagged position, tagged value) per exception in input order *)
CountLeq(xs, v) == Cardinality({i \in 1..Len(xs) : LLeq(xs[i], v)})
\* element at 0-based rank k of the sorted multiset
RankValue(xs, k) == LET c == {xs[i] : i \in 1..Len(xs)}
                        ok == {v \in c : CountLeq(xs, v) > k}
                    IN CHOOSE v \in ok : \A u \in ok : LLeq(v, u)
AllOnes(w) == [i \in 1..w |-> 255]
PforEnc(t, xs) ==
  LET n == Len(xs)
      mn == LSeqMin(xs)
      ti == IF (n * t) \div 100 >= n THEN n - 1 ELSE (n * t) \div 100
      tv == RankValue(xs, ti)
      w == LByteWidth(LSub(tv, mn))
      exc == SelectSeq([i \in 1..n |-> i], LAMBDA i : LLt(tv, xs[i]))
  IN LTaggedEnc(mn) \o <<w>> \o LTaggedEnc(LN(n))
     \o Flatten([i \in 1..n |-> IF LLt(tv, xs[i]) THEN AllOnes(w) ELSE LLE(LSub(xs[i], mn), w)])
     \o LTaggedEnc(LN(Len(exc)))
     \o Flatten([k \in 1..Len(exc) |-> LTaggedEnc(LN(exc[k] - 1)) \o LTaggedEnc(xs[exc[k]])])

(* adaptive envelope: one byte naming the encoding, then that encoding's own layout;
   specified for DELTA (0), FOR (1), PFOR at the 95th percentile (2), DICT (3), BITMAP (4; the
   serialised set object) and TAGGED (5) *)
TaggedSeqEnc(xs) == Flatten([i \in 1..Len(xs) |-> LTaggedEnc(xs[i])])
\* serialised set object, array container (fewer than 4096 members): container type 0, 32-bit little-endian
\* cardinality, members ascending as 16-bit little-endian words
BitmapArrayEnc(xs) == LET d == SortedDistinct(xs)
                      IN <<0>> \o LLE(LN(Len(d)), 4) \o Flatten([k \in 1..Len(d) |-> LLE(d[k], 2)])
AdaptiveTypes == {0, 1, 2, 3, 4, 5}
AdaptiveEnc(t, xs) == <<t>> \o (CASE t = 0 -> DeltaUEnc(xs) [] t = 1 -> ForEnc(xs) [] t = 2 -> PforEnc(95, xs)
                                  [] t = 3 -> DictEnc(xs) [] t = 4 -> BitmapArrayEnc(xs) [] OTHER -> TaggedSeqEnc(xs))

WireCodecs == {"for", "for_batch", "rle", "rle_hdr", "delta_u", "delta_s", "group", "dict", "dict_with",
               "gamma", "edelta", "bp32", "bp64", "bpd32", "bpd64", "pfor"}
Enc(codec, param, xs) ==
  CASE codec \in {"for", "for_batch"} -> ForEnc(xs)
    [] codec = "rle" -> RleEnc(xs)
    [] codec = "rle_hdr" -> RleHdrEnc(xs)
    [] codec = "delta_u" -> DeltaUEnc(xs)
    [] codec = "delta_s" -> DeltaSEnc(xs)
    [] codec = "group" -> GroupEnc(xs)
    [] codec \in {"dict", "dict_with"} -> DictEnc(xs)
    [] codec = "gamma" -> GammaArrEnc(xs)
    [] codec = "edelta" -> EDeltaArrEnc(xs)
    [] codec = "bp32" -> Bp128Enc(xs)
    [] codec = "bp64" -> Bp128Enc64(xs)
    [] codec \in {"bpd32", "bpd64"} -> Bp128DeltaEnc(xs)
    [] codec = "pfor" -> PforEnc(param, xs)
=============================================================================
