-------------------------------- MODULE Wire --------------------------------
(***************************************************************************)
(* Byte-exact wire formats of the array codecs whose layout is a pure      *)
(* function of the values: frame-of-reference, run-length (with and        *)
(* without count header), unsigned and signed delta, group, dictionary.    *)
(* Enc(codec, xs) is the sequence of bytes the encoder is specified to     *)
(* produce for the sequence xs of 64-bit values (limb triples, Limbs.tla). *)
(*                                                                         *)
(* None of the listed properties fixes these layouts (they only demand     *)
(* that what is written can be read back, within the advertised size), so  *)
(* StoreTrace reports a disagreement as a NOTE ("wire drift", an unclaimed *)
(* conformance fact in the evidence), never as a violation.  The layouts   *)
(* matter to a user because data written by one release is read by the     *)
(* next; and a reader/writer pair that changes in step is invisible to     *)
(* every round-trip property.                                              *)
(***************************************************************************)
EXTENDS Limbs, FiniteSets

Flatten(ss) == FoldLeft(LAMBDA acc, s : acc \o s, <<>>, ss)
\* external (little-endian, minimal width) encoding preceded by its width byte
WidthPrefixed(a) == <<LByteWidth(a)>> \o LLE(a, LByteWidth(a))
\* zig-zag of the two's-complement value a: 2a for a >= 0, 2(-a) - 1 for a < 0
LDouble(a) == LAdd(a, a)
LZigZag(a) == IF LIsNeg(a) THEN LSub(LDouble(LSub(LZero, a)), LN(1)) ELSE LDouble(a)

(* frame of reference: tagged minimum, width byte, tagged count, offsets *)
ForEnc(xs) ==
  LET mn == LSeqMin(xs)
      w == LByteWidth(LSub(LSeqMax(xs), mn))
  IN LTaggedEnc(mn) \o <<w>> \o LTaggedEnc(LN(Len(xs)))
     \o Flatten([i \in 1..Len(xs) |-> LLE(LSub(xs[i], mn), w)])

(* run length: (tagged run length, tagged value) per maximal run *)
RunStarts(xs) == {i \in 1..Len(xs) : i = 1 \/ xs[i] # xs[i - 1]}
RunLenAt(xs, i) == LET nxt == {j \in RunStarts(xs) : j > i}
                   IN (IF nxt = {} THEN Len(xs) + 1 ELSE CHOOSE j \in nxt : \A k \in nxt : j <= k) - i
RleEnc(xs) == Flatten([i \in 1..Len(xs) |->
                 IF i \in RunStarts(xs) THEN LTaggedEnc(LN(RunLenAt(xs, i))) \o LTaggedEnc(xs[i]) ELSE <<>>])
RleHdrEnc(xs) == LTaggedEnc(LN(Len(xs))) \o RleEnc(xs)

(* delta: width-prefixed base, then width-prefixed zig-zag differences *)
DeltaUEnc(xs) == WidthPrefixed(xs[1])
                 \o Flatten([i \in 1..(Len(xs) - 1) |-> WidthPrefixed(LZigZag(LSub(xs[i + 1], xs[i])))])
DeltaSEnc(xs) == WidthPrefixed(LZigZag(xs[1]))
                 \o Flatten([i \in 1..(Len(xs) - 1) |-> WidthPrefixed(LZigZag(LSub(xs[i + 1], xs[i])))])

(* group: field count, 2-bit width codes (LSB first), values at 1/2/4/8 bytes *)
GWidth(x) == LET w == LByteWidth(x) IN IF w <= 1 THEN 1 ELSE IF w <= 2 THEN 2 ELSE IF w <= 4 THEN 4 ELSE 8
GCode(x) == CASE GWidth(x) = 1 -> 0 [] GWidth(x) = 2 -> 1 [] GWidth(x) = 4 -> 2 [] OTHER -> 3
Pow4(k) == CASE k = 0 -> 1 [] k = 1 -> 4 [] k = 2 -> 16 [] OTHER -> 64
GroupEnc(xs) ==
  LET n == Len(xs)
      nb == (2 * n + 7) \div 8
      bm == [b \in 1..nb |-> FoldLeft(LAMBDA acc, j : acc + (IF 4 * (b - 1) + j <= n
                                                             THEN GCode(xs[4 * (b - 1) + j]) * Pow4(j - 1) ELSE 0),
                                      0, <<1, 2, 3, 4>>)]
  IN <<n>> \o bm \o Flatten([i \in 1..n |-> LLE(xs[i], GWidth(xs[i]))])

(* dictionary: tagged size, tagged entries ascending, tagged count, fixed-width indices *)
Distinct(xs) == {xs[i] : i \in 1..Len(xs)}
SortedDistinct(xs) == SetToSortSeq(Distinct(xs), LLt)
IndexOf(d, x) == CHOOSE k \in 1..Len(d) : d[k] = x
DictEnc(xs) ==
  LET d == SortedDistinct(xs)
      iw == LByteWidth(LN(Len(d) - 1))
  IN LTaggedEnc(LN(Len(d))) \o Flatten([k \in 1..Len(d) |-> LTaggedEnc(d[k])])
     \o LTaggedEnc(LN(Len(xs))) \o Flatten([i \in 1..Len(xs) |-> LLE(LN(IndexOf(d, xs[i]) - 1), iw)])

(* adaptive envelope: one byte naming the encoding, then that encoding's own layout;
   specified for DELTA (0), FOR (1), DICT (3) and TAGGED (5) *)
TaggedSeqEnc(xs) == Flatten([i \in 1..Len(xs) |-> LTaggedEnc(xs[i])])
AdaptiveTypes == {0, 1, 3, 5}
AdaptiveEnc(t, xs) == <<t>> \o (CASE t = 0 -> DeltaUEnc(xs) [] t = 1 -> ForEnc(xs)
                                  [] t = 3 -> DictEnc(xs) [] OTHER -> TaggedSeqEnc(xs))

WireCodecs == {"for", "for_batch", "rle", "rle_hdr", "delta_u", "delta_s", "group", "dict", "dict_with"}
Enc(codec, xs) ==
  CASE codec \in {"for", "for_batch"} -> ForEnc(xs)
    [] codec = "rle" -> RleEnc(xs)
    [] codec = "rle_hdr" -> RleHdrEnc(xs)
    [] codec = "delta_u" -> DeltaUEnc(xs)
    [] codec = "delta_s" -> DeltaSEnc(xs)
    [] codec = "group" -> GroupEnc(xs)
    [] codec \in {"dict", "dict_with"} -> DictEnc(xs)
=============================================================================
