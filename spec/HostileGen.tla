----------------------------- MODULE HostileGen -----------------------------
(***************************************************************************)
(* Hostile inputs for the length-taking decoders (C14), built from the     *)
(* documented wire layouts:                                                *)
(*   dict   [dict_size:tagged][entries:tagged...][count:tagged][indices:   *)
(*          little-endian, width = byte width of dict_size-1]              *)
(*   Elias  MSB-first bit strings of gamma / delta codes                   *)
(*   bitmap [type:1][cardinality:u32 LE] then ARRAY values u16 LE |        *)
(*          BITMAP 8192 bytes | RUNS [numRuns:u32 LE][start,len u16 LE]... *)
(*   rle    [run_length:tagged][value:tagged]...                           *)
(* A state machine picks a base encoding, then a mutation class: every     *)
(* truncation point, header fields forced to 0 / huge values, counts far   *)
(* larger than the payload, indices outside the dictionary, unary prefixes *)
(* that never end, container types with inconsistent cardinalities.  Every *)
(* leaf is printed as a HOST line <<api, declared, cap, bytes>> and fed to *)
(* the real decoder inside an exact-size guard-page buffer.                *)
(***************************************************************************)
EXTENDS ScalarBytes, SequencesExt, TLC

Flat(ss) == FlattenSeq(ss)
TagN(n) == TaggedEnc(W(n))
U32(n) == LEBytes(W(n), 4)
U16(n) == LEBytes(W(n), 2)
Huge == { PowW(20), Add(PowW(20), W(1)), PowW(32), PowW(61), Add(PowW(61), W(1)), PowW(63), AllOnes }

(* ------------------------------ dictionary ------------------------------ *)
IdxW(size) == IF size = 0 THEN 1 ELSE ByteWidth(W(size - 1))
DictWire(entries, idxs) ==
  TagN(Len(entries)) \o Flat([i \in 1..Len(entries) |-> TagN(entries[i])])
  \o TagN(Len(idxs)) \o Flat([i \in 1..Len(idxs) |-> LEBytes(W(idxs[i]), IdxW(Len(entries)))])
DictBases == { [e |-> <<5>>, i |-> <<0, 0, 0>>],
               [e |-> <<1, 300, 70000>>, i |-> <<0, 1, 2, 1>>],
               [e |-> [k \in 1..300 |-> 1000 + k], i |-> <<0, 299, 150>>],
               [e |-> <<7, 16777216>>, i |-> <<1, 0, 1, 1, 0, 1, 0, 0, 1, 1, 1, 0>>] }
\* replace the leading tagged varint of z by the tagged encoding of word w
ReHead(z, w) == TaggedEnc(w) \o SubSeq(z, TaggedLenFromFirst(z[1]) + 1, Len(z))
DictMut(b) ==
  LET z == DictWire(b.e, b.i)
      hdr == TaggedLen(W(Len(b.e))) + Len(Flat([k \in 1..Len(b.e) |-> TagN(b.e[k])]))   \* bytes before count
  IN {[bytes |-> SubSeq(z, 1, k), why |-> "trunc"] : k \in 0..Len(z)}
     \cup {[bytes |-> ReHead(z, w), why |-> "dictsize"] : w \in Huge \cup {Zero}}
     \cup {[bytes |-> SubSeq(z, 1, hdr) \o ReHead(SubSeq(z, hdr + 1, Len(z)), w), why |-> "count"] :
              w \in Huge \cup {W(Len(b.i) + 1), W(Len(b.i) + 200)}}
     \cup {[bytes |-> DictWire(b.e, [k \in 1..Len(b.i) |-> IF k = Len(b.i) THEN Len(b.e) ELSE b.i[k]]), why |-> "index"]}
     \cup {[bytes |-> SubSeq(z, 1, Len(z) - 1) \o <<255>>, why |-> "lastbyte"]}

(* -------------------------------- Elias --------------------------------- *)
PackBits(bits) ==   \* MSB-first
  LET nb == (Len(bits) + 7) \div 8
      bit(k) == IF k <= Len(bits) THEN bits[k] ELSE 0
  IN [i \in 1..nb |-> 128 * bit(8*i-7) + 64 * bit(8*i-6) + 32 * bit(8*i-5) + 16 * bit(8*i-4)
                      + 8 * bit(8*i-3) + 4 * bit(8*i-2) + 2 * bit(8*i-1) + bit(8*i)]
EliasBases == { <<1, 5, 100>>, <<70000>>, <<2, 2, 2, 2, 2, 2, 2, 2, 2>> }
GammaBitsOf(vs) == Flat([i \in 1..Len(vs) |-> Gamma(W(vs[i]))])
DeltaBitsOf(vs) == Flat([i \in 1..Len(vs) |-> Delta(W(vs[i]))])
ZeroBits(n) == [i \in 1..n |-> 0]
\* <<bytes, declared bits>>
EliasMut(code, vs) ==
  LET bits == IF code = "gamma" THEN GammaBitsOf(vs) ELSE DeltaBitsOf(vs) IN
  {[bytes |-> PackBits(SubSeq(bits, 1, k)), bits |-> k, why |-> "trunc"] : k \in 0..Len(bits)}
  \cup {[bytes |-> PackBits(ZeroBits(8 * k)), bits |-> 8 * k, why |-> "zeros"] : k \in 1..10}
  \cup {[bytes |-> PackBits(ZeroBits(8 * k - 1)) , bits |-> 8 * k - 1, why |-> "zeros"] : k \in 1..3}
  \cup (IF code = "delta"
        THEN {[bytes |-> PackBits(Gamma(W(L)) \o <<1, 0, 1>>), bits |-> Len(Gamma(W(L))) + 3, why |-> "length>64"] :
                 L \in {65, 100, 127, 64}}
        ELSE {})
  \cup {[bytes |-> PackBits(bits \o ZeroBits(5)), bits |-> Len(bits) + 5, why |-> "tail"]}

(* -------------------------------- bitmap -------------------------------- *)
Cards == {0, 1, 3, 4096, 65536, 16777216}
BitmapMut ==
  {[bytes |-> <<t>> \o U32(c) \o pay, why |-> "card"] :
      <<t, c, pay>> \in {0, 1, 2, 3, 255} \X Cards \X {<<>>, <<1, 0>>, <<1, 0, 2, 0, 3, 0>>, <<4, 0, 0, 0, 10, 0, 5, 0>>}}
  \cup {[bytes |-> <<2>> \o U32(5) \o LEBytes(w, 4) \o <<0, 0, 5, 0>>, why |-> "numruns"] : w \in Huge \cup {W(2)}}
  \cup {[bytes |-> <<t>> \o LEBytes(w, 4), why |-> "hugecard"] : t \in {0, 2}, w \in {PowW(31), LEBytes(AllOnes, 8)}}
  \cup {[bytes |-> SubSeq(<<0, 3, 0, 0, 0, 1, 0, 2, 0, 3, 0>>, 1, k), why |-> "trunc"] : k \in 0..11}
  \cup {[bytes |-> SubSeq(<<2, 5, 0, 0, 0, 1, 0, 0, 0, 10, 0, 5, 0>>, 1, k), why |-> "trunc"] : k \in 0..13}

(* ---------------------------------- rle --------------------------------- *)
RleWire(runs) == Flat([i \in 1..Len(runs) |-> TagN(runs[i][1]) \o TagN(runs[i][2])])
RleBases == { <<<<3, 7>>, <<300, 70000>>, <<1, 16777216>>>>, <<<<1, 1>>>> }
RleMut(r) ==
  LET z == RleWire(r) IN
  {[bytes |-> SubSeq(z, 1, k), why |-> "trunc"] : k \in 0..Len(z)}
  \cup {[bytes |-> z \o <<255>>, why |-> "tail9"], [bytes |-> z \o <<249, 1>>, why |-> "tail3"],
        [bytes |-> z \o <<5, 255, 1, 2>>, why |-> "tailval"]}

(* ------------------------------ enumeration ----------------------------- *)
VARIABLES stage, area
Init == stage = 0 /\ area = "none"
PickArea == stage = 0 /\ stage' = 1 /\ area' \in {"dict", "gamma", "delta", "bitmap", "rle"}
Out(api, declared, cap, m) == PrintT(<<"HOST", api, declared, cap, m.why, m.bytes>>)
Emit ==
  /\ stage = 1 /\ stage' = 2 /\ area' = area
  /\ CASE area = "dict" ->
            \A b \in DictBases : \A m \in DictMut(b) :
               /\ Out("DictDecode", Len(m.bytes), 0, m)
               /\ \A cap \in {0, 1, Len(b.i), Len(b.i) - 1, 1000} : Out("DictDecodeInto", Len(m.bytes), cap, m)
       [] area \in {"gamma", "delta"} ->
            \A vs \in EliasBases : \A m \in EliasMut(area, vs) :
               \A cap \in {0, 1, Len(vs), Len(vs) - 1, 64} :   \* the empty and the one-element output array too
                  Out(IF area = "gamma" THEN "EliasGammaDecodeArray" ELSE "EliasDeltaDecodeArray", m.bits, cap, m)
       [] area = "bitmap" -> \A m \in BitmapMut : Out("BitmapDecode", Len(m.bytes), 0, m)
       [] area = "rle" -> \A r \in RleBases : \A m \in RleMut(r) : Out("RLEGetRunCount", Len(m.bytes), 0, m)
Next == PickArea \/ Emit
Spec == Init /\ [][Next]_<<stage, area>>
=============================================================================
