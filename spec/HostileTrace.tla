---------------------------- MODULE HostileTrace ----------------------------
(***************************************************************************)
(* Trace specification for the length-taking decoders on arbitrary input   *)
(* (C14).  Contract of DecodeBounded(api, bytes, declared, cap):           *)
(*   - no access at or beyond `declared` (observed: the input ends at a    *)
(*     PROT_NONE page exactly there), no write beyond `cap` outputs;       *)
(*   - terminates (observed: per-call alarm);                              *)
(*   - no allocation request beyond AllocCap(declared, cap);               *)
(*   - the result is an error / short value: at most `cap` elements.       *)
(* The bounded tagged reader is specified exactly (TaggedGetBounded).      *)
(* State: l only -- the calls are independent.                             *)
(***************************************************************************)
EXTENDS ScalarBytes, TLC, Json, IOUtils

Tr == ndJsonDeserialize(IOEnv.TRACE)
NT == Len(Tr)
VARIABLE l

Bad(cond, prop, why) == IF cond THEN {} ELSE {<<prop, why>>}

\* generous on purpose: the dictionary cap of the code (1 Mi entries of 8 bytes), plus
\* 64 bytes per declared input byte, plus the output, plus one bitmap container
AllocCapKiB(declared, cap) == 8192 + (64 * declared) \div 1024 + (8 * cap) \div 1024 + 64

Fails(ev) ==
  IF ev.api = "TaggedGet"
  THEN LET z == ev["in"] \o <<0, 0, 0, 0, 0, 0, 0, 0, 0>>
           r == IF ev.declared < 1 THEN [len |-> 0, val |-> Zero] ELSE TaggedGetBounded(z, ev.declared)
       IN Bad(ev.fault = 0, "C14", "bounded tagged reader read beyond its declared length")
          \cup Bad(ev.fault # 0 \/ ev.ret = r.len, "C14", "tagged varint cut short of its announced length not reported as length 0")
          \cup Bad(ev.fault # 0 \/ r.len = 0 \/ ev.val = r.val, "C14", "bounded tagged reader returned a wrong value")
  ELSE Bad(ev.fault # 1, "C14", "decoder accessed memory outside its declared input / output capacity")
       \cup Bad(ev.fault # 2, "C14", "decoder did not terminate")
       \cup Bad(ev.fault # 3, "C14", "decoder aborted")
       \cup Bad(ev.refused = 0 /\ ev.maxalloc_kib <= AllocCapKiB(ev.declared, ev.cap), "C14",
                "decoder attempted an unbounded allocation")
       \cup Bad(ev.fault # 0 \/ ev.cap = 0 \/ ev.ret <= ev.cap, "C14", "decoder reported more elements than the capacity")

Init == l = 1
Next == /\ l <= NT
        /\ \A x \in Fails(Tr[l]) : PrintT(<<"REJECT", l, x[1], x[2]>>)
        /\ l' = l + 1
Spec == Init /\ [][Next]_l
=============================================================================
