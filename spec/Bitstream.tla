----------------------------- MODULE Bitstream -----------------------------
(***************************************************************************)
(* A bitstream is the concatenation of machine words, each read most       *)
(* significant bit first (varintBitstream.h: "we write in order").          *)
(* Set(off, w, val) replaces bits [off, off+w) by val's w low bits, most   *)
(* significant first, and nothing else; Get reads them back.               *)
(* Memory is a flat sequence of bits; words appear only in the footprint   *)
(* rule: just the words overlapping the range may be accessed.             *)
(***************************************************************************)
EXTENDS Words

\* stream logged as bytes, most significant byte of each word first => flat MSB-first bits
ByteBit(b, r) == (b \div Pow2[r + 1]) % 2
StreamBit(bytes, g) == ByteBit(bytes[(g \div 8) + 1], 7 - (g % 8))
SetSpec(pre, off, w, val) == [g \in 0..(8 * Len(pre) - 1) |->
                                IF off <= g /\ g < off + w THEN BitAt(val, w - 1 - (g - off))
                                ELSE StreamBit(pre, g)]
GetSpec(mem, off, w) == \* value of bits [off, off+w) as a word
  LET bit(k) == IF k < w THEN StreamBit(mem, off + w - 1 - k) ELSE 0      \* k = significance
  IN [i \in 1..8 |-> bit(8*(i-1)) + 2*bit(8*(i-1)+1) + 4*bit(8*(i-1)+2) + 8*bit(8*(i-1)+3)
                     + 16*bit(8*(i-1)+4) + 32*bit(8*(i-1)+5) + 64*bit(8*(i-1)+6) + 128*bit(8*(i-1)+7)]
OverlapWords(off, w, wb) == ((off % wb) + w + wb - 1) \div wb
=============================================================================
