"""C17: stateless codecs are safe to call concurrently.

E: Threads.tla (all interleavings of Begin/End of N<=3 threads; SharedScratch = negative control)
V: drv_threads.c (16 threads, barrier-released bursts, shared inputs / private outputs), per-thread logs
   validated independently against ThreadsTrace.tla; the same driver under ThreadSanitizer: any report
   becomes a Race event (never an action of the spec).
"""
import json
import os
import shutil
import subprocess
import time

import vlib
from vlib import Broken, Model
import area_mem

LIB = ["varintTagged.c", "varintExternal.c", "varintChained.c", "varintChainedSimple.c", "varintDelta.c",
       "varintFOR.c", "varintPFOR.c", "varintGroup.c", "varintDict.c", "varintRLE.c", "varintElias.c",
       "varintBP128.c", "varintAdaptive.c", "varintBitmap.c", "varintFloat.c"]
BUILD = dict(extra_flags=["-std=gnu11", "-pthread"])


def prebuild():
    vlib.build_driver("drv_threads", "pinned", LIB, **BUILD)
    vlib.build_driver("drv_threads", "tsan", LIB, **BUILD)


def writable_statics():
    """coverage fact: file-scope writable objects in the library objects (expected: none)"""
    out = []
    d = vlib.scratch("nm")
    try:
        for src in LIB:
            o = os.path.join(d, src + ".o")
            r = subprocess.run(["gcc", "-c", "-O2", "-w", "-DNDEBUG", "-I" + os.path.join(vlib.REPO, "src"),
                                os.path.join(vlib.REPO, "src", src), "-o", o], capture_output=True, text=True)
            if r.returncode:
                continue
            nm = subprocess.run(["nm", o], capture_output=True, text=True).stdout
            for ln in nm.splitlines():
                p = ln.split()
                if len(p) == 3 and p[1] in "bBdDcC":
                    out.append("%s:%s" % (src, p[2]))
    finally:
        shutil.rmtree(d, ignore_errors=True)
    return out


def run(pid, tier):
    t0 = time.time()
    work = vlib.scratch(pid)
    model = Model()
    try:
        negm = area_mem.model_with_neg(
            work, model, "Threads",
            "N = 3\nArgs = {1, 2, 3}\nSharedScratch = FALSE\nCallsPerThread = 2",
            "N = 3\nArgs = {1, 2, 3}\nSharedScratch = TRUE\nCallsPerThread = 2",
            "Invariant SameAsAlone is violated", props="INVARIANT SameAsAlone\n")
        nthreads = 16
        rounds = 40 if tier == "quick" else 600
        reps = 1 if tier == "quick" else 4
        cold = 24 if tier == "quick" else 200   # extra short processes: only the cold-start burst + 1 round
        traces = []
        races = []
        for tname in ("pinned", "tsan", "c99"):
            drv = vlib.build_driver("drv_threads", tname, LIB, **BUILD)
            ncold = cold if tname == "pinned" else max(cold // 6, 3)
            for rep in range(reps + ncold):
                prefix = os.path.join(work, "thr-%s-%d" % (tname, rep))
                nrounds = rounds if tname == "pinned" else max(rounds // 4, 10) if tname == "tsan" else max(rounds // 2, 10)
                if rep >= reps:
                    nrounds = 1
                env = dict(os.environ, VERIF_SEED=str(vlib.SEED + rep),
                           TSAN_OPTIONS="halt_on_error=0 exitcode=0 report_signal_unsafe=0")
                try:
                    r = subprocess.run([drv, str(nthreads), str(nrounds), prefix], capture_output=True, text=True,
                                       timeout=420 if tier == "quick" else 1500, env=env)
                except subprocess.TimeoutExpired:
                    # a hang under concurrency (e.g. a corrupted allocator lock) is handled like a crash below
                    class _R:
                        returncode, stderr = -99, "hang: the threads did not finish"
                    r = _R()
                    subprocess.run(["pkill", "-9", "-f", prefix], capture_output=True)
                if r.returncode != 0 or not os.path.exists(prefix + "-alone.ndjson"):
                    # (under TSan a fatal signal can still end in exit code 0: the missing reference file tells)
                    # a crash under concurrency is a violation only if the same calls survive a single thread
                    single = subprocess.run([drv, "1", str(nrounds), prefix + "-single"], capture_output=True,
                                            text=True, timeout=1500, env=env)
                    ok1 = single.returncode == 0 and os.path.exists(prefix + "-single-alone.ndjson")
                    for fn in os.listdir(work):
                        if fn.startswith(os.path.basename(prefix) + "-"):
                            os.remove(os.path.join(work, fn))
                    if not ok1:
                        raise Broken("drv_threads (%s) failed rc=%s even with one thread: %s"
                                     % (tname, r.returncode, r.stderr[-1500:]))
                    crash = os.path.join(work, "crash-%s-%d.ndjson" % (tname, rep))
                    with open(crash, "w") as o:
                        o.write('{"e":"Reset"}\n')
                        o.write(json.dumps({"e": "Crash", "api": "process", "rc": r.returncode, "t": -1,
                                            "detail": r.stderr[-300:]}) + "\n")
                    traces.append(crash)
                    continue
                nrace = r.stderr.count("WARNING: ThreadSanitizer: data race")
                if nrace:
                    races.append(r.stderr[:1500])
                alone = prefix + "-alone.ndjson"
                for t in range(nthreads):
                    # cold-start repetitions of one tier share 16 files (Reset between processes)
                    cat = (prefix + "-cat%02d.ndjson" % t) if rep < reps else os.path.join(work, "cold-%s-%02d.ndjson" % (tname, t))
                    with open(cat, "a") as o:
                        o.write('{"e":"Reset"}\n')
                        with open(alone) as i:
                            shutil.copyfileobj(i, o)
                        with open(prefix + "-t%02d.ndjson" % t) as i:
                            shutil.copyfileobj(i, o)
                        if nrace and t == 0:
                            o.write(json.dumps({"e": "Race", "api": "tsan", "detail": races[-1][:400], "count": nrace}) + "\n")
                    if cat not in traces:
                        traces.append(cat)
                    os.remove(prefix + "-t%02d.ndjson" % t)
                os.remove(alone)
        events, rejects, _ = vlib.validate(traces, "ThreadsTrace.tla", "ThreadsTrace.cfg", xmx="2g")
        # negative control: corrupt one End result
        neg = None
        with open(traces[0]) as f:
            lines = [json.loads(x) for x in f]
        for i, ev in enumerate(lines):
            if ev["e"] == "End":
                ev["len"] += 1
                break
        d = vlib.scratch("neg")
        p = os.path.join(d, "neg.ndjson")
        with open(p, "w") as f:
            f.write("\n".join(json.dumps(x) for x in lines[:i + 1]) + "\n")
        rn = vlib.tlc("ThreadsTrace.tla", "ThreadsTrace.cfg", env={"TRACE": p}, workers=1, xmx="1g")
        shutil.rmtree(d, ignore_errors=True)
        if not [x for x in rn["rejects"] if not x[2].startswith("H:")]:
            raise Broken("negative control accepted: ThreadsTrace is vacuous")
        neg = {"ran": True, "rejected": True}
        statics = writable_statics()
        classes, samples = vlib.classes_of(traces, lambda ev: (ev["e"], ev.get("api"), ev.get("input"), ev.get("t")))
        rule = ("%d threads x %d rounds of barrier-released bursts over 15 call classes (scalar tagged/external/chained, "
                "delta, FOR, PFOR, group, dict, RLE, Elias, BP128, float, adaptive, packed array and bitstream on "
                "private storage) on 6 shared read-only inputs, alternating 'every thread a different codec' and "
                "'every thread the same codec on the same input'; optimised build and ThreadSanitizer build; each "
                "thread's Begin/End log validated on its own against the sequential results; class = (event, call "
                "class, input, thread)" % (nthreads, rounds))
        return vlib.finish(pid, tier, t0, model, events, len(traces), rejects, samples, classes, rule,
                           ["interleavings are exhaustive only in Threads.tla (3 threads, 2 calls each); on the code "
                            "they are the schedules 16 cores produced plus ThreadSanitizer's happens-before analysis",
                            "allocator (glibc malloc) is assumed thread-safe"],
                           extra={"negative_control": neg, "model_negative_control": negm,
                                  "tsan_reports": len(races), "writable_file_scope_objects": statics,
                                  "threads": nthreads, "rounds": rounds})
    finally:
        shutil.rmtree(work, ignore_errors=True)
