"""C07: float codec -- full mode bit-exact, lossy modes within the published error.

E: FloatModel.tla (documented algorithm on a toy format, exhaustive; no-carry variant = negative control)
G: FloatModel.tla value classes (FCLASS/FSPECIAL lines)
V: drv_float.c -> FloatTrace.tla (FloatCodec!Reproduced on binary64 bit patterns)
"""
import json
import os
import re
import shutil
import time

import vlib
from vlib import Broken, Model
import area_mem

LIB = ["varintFloat.c", "varintExternal.c"]
BUILD = dict(extra_flags=["-std=gnu11"] + vlib.SHIM_LD, extra_src=["allocshim.c"])


def prebuild():
    vlib.build_driver("drv_float", "pinned", LIB, **BUILD)


def side_rejects(work, model, tier):
    """The float driver's events for another property's check: FloatTrace.tla also decides the float clauses of
    C03 (written <= varintFloatMaxEncodedSize, exact-size guard-page destination) and C16 (bytes consumed by the
    decoder = bytes written).  Returns (events, rejects, number of traces)."""
    consts = "EB = 3\nMB = 6\nReduced = {2, 3, 4}\nCarryHandled = TRUE\nDB = 2\nSpanAfterRounding = TRUE"
    cfg = os.path.join(work, "FloatModelSide.cfg")
    with open(cfg, "w") as f:
        f.write("SPECIFICATION Spec\nCONSTANTS\n%s\nINVARIANT Contract\nCHECK_DEADLOCK FALSE\n" % consts)
    r = vlib.tlc_or_broken("FloatModel.tla", cfg, workers=vlib.NCPU, xmx="4g")
    model.add("FloatModel[classes]", r)
    classes_txt = sorted({re.sub(r'[<>",]', "", m.group(0)).strip()
                          for m in re.finditer(r'<<"FCLASS", \d, -?\d+, "\w+">>|<<"FSPECIAL", "\w+">>|<<"FSPAN", -?\d+, \d+, "\w+", "\w+">>', r["out"])})
    path = os.path.join(work, "fclasses.txt")
    with open(path, "w") as f:
        f.write("\n".join(classes_txt) + "\n")
    drv = vlib.build_driver("drv_float", "pinned", LIB, **BUILD)
    traces, cmds = [], []
    for s in range(vlib.NCPU):
        out = os.path.join(work, "side-f64-%02d.ndjson" % s)
        traces.append(out)
        cmds.append([drv, path, str(s), str(vlib.NCPU), str(500 if tier == "quick" else 50000), out])
    vlib.run_many(cmds)
    events, rejects, _ = vlib.validate(traces, "FloatTrace.tla", "FloatTrace.cfg", xmx="3g")
    return events, rejects, len(traces)


def run(pid, tier):
    t0 = time.time()
    work = vlib.scratch(pid)
    model = Model()
    try:
        consts = "EB = %d\nMB = %d\nReduced = {2, 3, 4}\nCarryHandled = %s\nDB = 2\nSpanAfterRounding = %s"
        eb, mb_ = (3, 6) if tier == "quick" else (4, 8)
        cfg = os.path.join(work, "FloatModel.cfg")
        with open(cfg, "w") as f:
            f.write("SPECIFICATION Spec\nCONSTANTS\n%s\nINVARIANT Contract\nINVARIANT ArrayContract\nCHECK_DEADLOCK FALSE\n" % (consts % (eb, mb_, "TRUE", "TRUE")))
        r = vlib.tlc_or_broken("FloatModel.tla", cfg, workers=vlib.NCPU, xmx="4g")
        model.add("FloatModel[EB=%d,MB=%d]" % (eb, mb_), r)
        classes_txt = sorted({re.sub(r'[<>",]', "", m.group(0)).strip()
                              for m in re.finditer(r'<<"FCLASS", \d, -?\d+, "\w+">>|<<"FSPECIAL", "\w+">>|<<"FSPAN", -?\d+, \d+, "\w+", "\w+">>', r["out"])})
        if len(classes_txt) < 100:
            raise Broken("FloatModel printed too few value classes (%d)" % len(classes_txt))
        with open(cfg, "w") as f:
            f.write("SPECIFICATION Spec\nCONSTANTS\n%s\nINVARIANT Contract\nCHECK_DEADLOCK FALSE\n" % (consts % (3, 6, "FALSE", "TRUE")))
        rn = vlib.tlc("FloatModel.tla", cfg, workers=4, xmx="2g")
        area_mem.clean_ttrace()
        if "Invariant Contract is violated" not in rn["out"]:
            raise Broken("FloatModel negative control (carry dropped) found no counterexample")
        with open(cfg, "w") as f:
            f.write("SPECIFICATION Spec\nCONSTANTS\n%s\nINVARIANT ArrayContract\nCHECK_DEADLOCK FALSE\n" % (consts % (3, 6, "TRUE", "FALSE")))
        rn = vlib.tlc("FloatModel.tla", cfg, workers=4, xmx="2g")
        area_mem.clean_ttrace()
        if "Invariant ArrayContract is violated" not in rn["out"]:
            raise Broken("FloatModel negative control (span measured before rounding) found no counterexample")
        # the same contract for the real binary64 format, every normal double, by Apalache
        lemmas = vlib.unbounded_lemmas(model, "FloatMath", ["Contract"],
                                       ("e2 == IF carried THEN ee + 1 ELSE ee", "e2 == ee", "Contract"))
        path = os.path.join(work, "classes.txt")
        with open(path, "w") as f:
            f.write("\n".join(classes_txt) + "\n")
        nrand = 3000 if tier == "quick" else 300000
        tiers = (["pinned", "debug"] if tier == "quick" else ["pinned", "debug", "san"]) + vlib.isa_tier(LIB)
        traces, cmds = [], []
        for t in tiers:
            drv = vlib.build_driver("drv_float", t, LIB, **BUILD)
            for s in range(vlib.NCPU):
                out = os.path.join(work, "f64-%s-%02d.ndjson" % (t, s))
                traces.append(out)
                cmds.append([drv, path, str(s), str(vlib.NCPU), str(nrand), out])
        vlib.run_many(cmds, env={"ASAN_OPTIONS": "detect_leaks=0:handle_segv=0:allow_user_segv_handler=1"})
        if tier == "thorough":
            # "all arrays": one array whose packed mantissa block exceeds 2^32 bits in a single call (~4 GB, ~20 s)
            gout = os.path.join(work, "f64-giant.ndjson")
            vlib.run_many([[vlib.build_driver("drv_float", "pinned", LIB, **BUILD), "giant", "0", gout]], timeout=1500)
        events, rejects, _ = vlib.validate(traces, "FloatTrace.tla", "FloatTrace.cfg", xmx="3g")
        if tier == "thorough":
            e2, r2, _ = vlib.validate([gout], "FloatTrace.tla", "FloatTrace.cfg", xmx="3g")
            events, rejects = events + e2, rejects + r2

        def mut(ev):
            if ev.get("prec") != 0 or not ev["ys"]:
                return None
            ev = json.loads(json.dumps(ev))
            ev["ys"][0][0] ^= 1   # one mantissa bit of a FULL-precision result
            return ev
        neg = vlib.negative_control(traces[0], "FloatTrace.tla", "FloatTrace.cfg", mut)
        classes, samples = vlib.classes_of(
            traces, lambda ev: (ev["prec"], ev["mode"], ev["auto"], min(ev["n"], 4),
                                tuple(sorted({(x[7] & 0x7F) >> 4 for x in ev["xs"]}))[:3]))
        values = sum(json.loads(ln)["n"] for t in traces for ln in open(t))
        rule = ("value classes printed by TLC from FloatModel.tla (%d: sign x exponent {-1022,-1021,-300,-1,0,1,300,"
                "1022,1023} x mantissa {0, 1, all ones, rounding-carry and exactly-half-way patterns for 23/10/4 bits, "
                "random} and 10 specials incl. NaN payloads, infinities, signed zeros, subnormals), each alone and in "
                "mixed arrays in all 4 precisions x 3 exponent modes; arrays with exponent spread > 255; automatic "
                "selection for 26 requested errors around 1e-10/2^-23/5e-4/2^-10/0.03/2^-4; %d seeded random arrays; "
                "%d values judged; class = (precision, mode, auto, length, magnitude bands)"
                % (len(classes_txt), nrand, values))
        return vlib.finish(pid, tier, t0, model, events, len(traces), rejects, samples, classes, rule,
                           ["binary64 host doubles; bit patterns compared, no floating-point arithmetic in the oracle",
                            "values inside a class are seeded samples"],
                           extra={"unbounded_lemmas_apalache": lemmas, "negative_control": neg, "model_negative_control": {"ran": True, "counterexample_found": True},
                                  "tiers": tiers, "values_judged": values})
    finally:
        shutil.rmtree(work, ignore_errors=True)
