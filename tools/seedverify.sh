#!/bin/bash
# tools/seedverify.sh <Cxx> [name]: confirm a sub-agent's seeded change in ITS scratch worktree
# (/tmp/wt/<Cxx>): patch applies to pristine, builds, passes the 13 tests, demo fails with it and
# passes without it; then store it under /verif/seeded/<name>/ .
set -u
ID="$1"; NAME="${2:-$1}"; WT=/tmp/wt/$ID; OUT=/tmp/wt/$ID-out
cd "$WT" || exit 2
git checkout -q -- . && git apply "$OUT/patch.diff" || { echo "PATCH DOES NOT APPLY"; exit 1; }
git diff --stat | tail -3
rm -rf "$WT/_build"
cmake -G Ninja -S "$WT" -B "$WT/_build" -DCMAKE_BUILD_TYPE=RelWithDebInfo -DCMAKE_C_FLAGS=-Wno-error >/dev/null 2>&1 && cmake --build "$WT/_build" >/dev/null 2>&1 || { echo "BUILD FAILS WITH CHANGE"; exit 1; }
T=$(ctest --test-dir "$WT/_build" -j8 --timeout 900 2>&1 | grep "tests passed")
echo "with change: $T"
echo "$T" | grep -q "100% tests passed, 0 tests failed out of 13" || { echo "TESTS DO NOT ALL PASS"; exit 1; }
CMD=$(python3 -c "import json;print(json.load(open('$OUT/meta.json'))['demo_cmd'])")
( cd "$OUT" && timeout 600 bash -c "$CMD" >/tmp/wt/$ID-demo-with.log 2>&1 ); W=$?
git checkout -q -- .
( cd "$OUT" && timeout 600 bash -c "$CMD" >/tmp/wt/$ID-demo-without.log 2>&1 ); WO=$?
git apply "$OUT/patch.diff"
echo "demo exit with change: $W ; without: $WO"
[ "$W" != 0 ] && [ "$WO" = 0 ] || { echo "DEMO DOES NOT DISCRIMINATE"; tail -3 /tmp/wt/$ID-demo-with.log /tmp/wt/$ID-demo-without.log; exit 1; }
mkdir -p /verif/seeded/$NAME
cp "$OUT/patch.diff" "$OUT/meta.json" /verif/seeded/$NAME/
for f in "$OUT"/demo.* "$OUT"/*.c "$OUT"/*.sh "$OUT"/*.h; do [ -f "$f" ] && cp "$f" /verif/seeded/$NAME/ ; done
python3 - <<PY
import json
p='/verif/seeded/$NAME/meta.json'
m=json.load(open(p))
m['confirmed']={'patch_applies_to_pristine':True,'tests_pass_with_change':'13/13','demo_exit_with_change':$W,'demo_exit_without_change':$WO,
  'how':'tools/seedverify.sh in the sub-agent scratch worktree (cmake+ninja RelWithDebInfo, ctest -j8); demo_cmd run with and without the patch'}
json.dump(m,open(p,'w'),indent=1)
PY
echo CONFIRMED $NAME
