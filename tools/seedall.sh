#!/bin/bash
# tools/seedall.sh [ids...]: run every seeded change (default: all) against its target property's quick
# check, one after the other (each is applied to /repo and undone by tools/seedtest.py); prints one line each.
cd "$(dirname "$0")/.."
ids="$@"; [ -z "$ids" ] && ids=$(ls seeded | grep -E '^[C-Z][0-9]+$')
for d in $ids; do
  r=$(timeout 2400 python3 tools/seedtest.py "$PWD/seeded/$d" 2>&1 | tail -1 | cut -c1-90)
  echo "$d: $r"
done
