#!/bin/bash
# tools/seedall.sh [-j N] [ids...]: run every seeded change (default: all) against its target property's quick
# check; prints one line each.  Without -j each change is applied to /repo and undone by tools/seedtest.py, one
# after the other; with -j N each is applied to a scratch copy of /repo (tools/seedtest.py --copy) and N run
# side by side.
cd "$(dirname "$0")/.."
jobs=0
if [ "$1" = "-j" ]; then jobs=$2; shift 2; fi
ids="$@"; [ -z "$ids" ] && ids=$(ls seeded | grep -E '^[C-Z][0-9]+$')
one() {
  r=$(timeout 2400 python3 tools/seedtest.py "$PWD/seeded/$1" $2 2>&1 | tail -1 | cut -c1-90)
  echo "$1: $r"
}
export -f one
if [ "$jobs" -gt 0 ]; then
  printf '%s\n' $ids | xargs -P "$jobs" -I{} bash -c 'one {} --copy'
else
  for d in $ids; do one "$d" ""; done
fi
