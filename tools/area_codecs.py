"""C02, C03, C06, C13, C16: integer-array codecs as a register (StoreTrace.tla).

G: Scenarios.tla (TLC enumerates codec x length class x value shape leaves)
V: drv_codecs.c on the real code -> StoreTrace.tla
"""
import json
import os
import re
import shutil
import time

import vlib
from vlib import Broken, Model

LIB = ["varintTagged.c", "varintExternal.c", "varintDelta.c", "varintFOR.c", "varintPFOR.c", "varintGroup.c",
       "varintDict.c", "varintRLE.c", "varintElias.c", "varintBP128.c", "varintAdaptive.c", "varintBitmap.c"]
BUILD = dict(extra_flags=["-std=gnu11"] + vlib.SHIM_LD, extra_src=["allocshim.c"])
SCEN = re.compile(r'<<\s*"SCEN",\s*"(\w+)",\s*(-?\d+),\s*(\d+),\s*"(\w+)",\s*(-?\d+),\s*(-?\d+),\s*(-?\d+),\s*(-?\d+)\s*>>', re.S)
SEL = re.compile(r'<<\s*"SEL",\s*"([^"]+)",\s*"(\w+)",\s*(\d+),\s*(-?\d+),\s*(-?\d+),\s*(-?\d+),\s*(-?\d+),\s*"(\w+)",\s*(\d+)\s*>>', re.S)
WHAT = {"C02": 1, "C06": 1, "C03": 2, "C13": 4, "C16": 8}
PURPOSE = {"C02": "c02", "C06": "c06", "C03": "c03", "C13": "c13", "C16": "c16"}


def tiers_for(pid, tier):
    # "simd" (-mavx2 -mavx512f -mf16c) compiles the vectorised paths of varintFOR.c / varintBP128.c that the
    # default build (and the repository's tests) never compile; it is part of the quick tier for that reason
    if tier == "quick":
        return ["pinned", "debug", "simd"] if pid in ("C02", "C06") else ["pinned", "simd"]
    return ["pinned", "debug", "simd"]


def prebuild():
    vlib.build_driver("drv_codecs", "pinned", LIB, **BUILD)
    vlib.build_driver("drv_codecs", "debug", LIB, **BUILD)
    vlib.build_driver("drv_codecs", "simd", LIB, **BUILD)


def scenarios(work, tier, purpose, model):
    cfg = os.path.join(work, "Scenarios.cfg")
    with open(cfg, "w") as f:
        f.write('SPECIFICATION Spec\nCONSTANTS Tier = "%s"\n Purpose = "%s"\nINVARIANT TypeOK\nCHECK_DEADLOCK FALSE\n'
                % (tier, purpose))
    mined = os.path.join(work, "mined.ndjson")
    with open(mined, "w") as f:
        for m in vlib.mined_constants():
            if 200 <= m < 2 ** 31 - 64:
                f.write(json.dumps({"n": m}) + "\n")
    r = vlib.tlc_or_broken("Scenarios.tla", cfg, workers=4, xmx="2g", env={"MINED": mined})
    model.add("Scenarios[%s,%s]" % (tier, purpose), r)
    sc = sorted({"%s %s %s %s %s %s %s %s" % m for m in SCEN.findall(r["out"])})
    if len(sc) < 50:
        raise Broken("Scenarios.tla produced too few scenarios (%d)" % len(sc))
    predicted = {}
    if purpose != "c02":
        # inputs on, below and above every threshold of the adaptive selection tree
        cfg2 = os.path.join(work, "Selector.cfg")
        with open(cfg2, "w") as f:
            f.write('SPECIFICATION Spec\nCONSTANT Tier = "%s"\nINVARIANT Emit\nCHECK_DEADLOCK FALSE\n' % tier)
        r2 = vlib.tlc_or_broken("Selector.tla", cfg2, workers=4, xmx="2g")
        model.add("Selector[%s]" % tier, r2)
        sel = SEL.findall(r2["out"])
        if len(sel) < 40:
            raise Broken("Selector.tla produced too few recipes (%d)" % len(sel))
        forced = [-1, 0, 1, 2, 3, 4, 5] if purpose == "c06" else [-1]
        for (edge, sh, n, p1, p2, p3, p4, leaf, typ) in sel:
            predicted[(sh, int(n), int(p1), int(p2), int(p3), int(p4))] = (edge, leaf, int(typ))
            for fp in forced:
                sc.append("adaptive %d %s %s %s %s %s %s" % (fp, n, sh, p1, p2, p3, p4))
        sc = sorted(set(sc))
    # heavy scenarios first so shards balance
    path = os.path.join(work, "scenarios.txt")
    with open(path, "w") as f:
        f.write("\n".join(sc) + "\n")
    return path, len(sc), predicted


def key(ev):
    e = ev.get("e")
    if e == "Enc":
        return ("Enc", ev["codec"], ev["param"], ev["n"], ev["shape"], ev["sparam"])
    if e in ("Dec", "At", "Blk", "Acc", "EncTight"):
        return (e, ev["codec"], ev.get("api"), ev.get("cap", -1) > 0)
    return None


def neg(pid):
    def m_dec(ev):
        if ev.get("e") != "Dec" or ev["ret"] < 2 or ev.get("cap", 0) < ev["ret"]:
            return None
        return None  # Dec needs its Enc; handled by two-line control below
    return m_dec


def negative_control(traces, pid):
    """Take one Enc+reader pair from the real trace, corrupt the reader's result; must be rejected."""
    want = {"C02": "Dec", "C06": "Dec", "C13": "Dec", "C16": "Acc", "C03": "Enc"}[pid]
    for t in traces:
        enc = None
        with open(t) as f:
            for ln in f:
                ev = json.loads(ln)
                if ev["e"] == "Enc":
                    enc = ev
                    if want == "Enc" and ev["fault"] == 0 and ev["written"] > 0 and len(ev["xs"]) < 300:
                        bad = json.loads(json.dumps(ev))
                        bad["written"] = bad["bound"] + 1
                        return _run_neg([bad])
                elif ev["e"] == want and enc is not None and ev["fault"] == 0 and len(enc["xs"]) < 300:
                    bad = json.loads(json.dumps(ev))
                    if want == "Dec":
                        if pid == "C13":
                            if ev["cap"] >= len(enc["xs"]) or ev["cap"] < 1:
                                continue
                            bad["ret"] = ev["cap"] + 1
                            bad["ys"] = enc["xs"][:ev["cap"] + 1]
                        else:
                            if ev["ret"] < 2 or ev["cap"] < len(enc["xs"]):
                                continue
                            bad["ys"][1] = [bad["ys"][1][0], bad["ys"][1][1], bad["ys"][1][2] ^ 1]
                    else:
                        if ev["hasval"]:
                            bad["val"] = [bad["val"][0], bad["val"][1], bad["val"][2] ^ 1]
                        else:
                            bad["ret"] = ev["ret"] + 1
                    return _run_neg([enc, bad])
    raise Broken("negative control: no suitable event pair found")


def _run_neg(events):
    d = vlib.scratch("neg")
    p = os.path.join(d, "neg.ndjson")
    with open(p, "w") as f:
        for e in events:
            f.write(json.dumps(e) + "\n")
    r = vlib.tlc("StoreTrace.tla", "StoreTrace.cfg", env={"TRACE": p}, workers=1, xmx="1g", timeout=300)
    shutil.rmtree(d, ignore_errors=True)
    if not r["ok"]:
        raise Broken("negative control run failed:\n" + r["out"][-2000:])
    real = [x for x in r["rejects"] if not x[2].startswith("H:")]
    if not real:
        raise Broken("negative control was ACCEPTED by StoreTrace: the trace spec is vacuous")
    return {"ran": True, "rejected": True, "reasons": sorted({x[2] for x in real})}


def selector_agreement(traces, predicted):
    """Coverage information only: did the real selector take the leaf Selector.tla predicts for each
    threshold recipe?  A lossless selector that chooses differently does not violate C06."""
    seen, agree, drift = 0, 0, []
    for t in traces:
        with open(t) as f:
            for ln in f:
                if '"e":"Enc"' not in ln.replace(" ", "") or '"codec":"adaptive"' not in ln.replace(" ", ""):
                    continue
                ev = json.loads(ln)
                if ev.get("param") != -1:
                    continue
                k = (ev["shape"], ev["n"], ev["sparam"], ev.get("p2", 0), ev.get("p3", 0), ev.get("p4", 0))
                if k not in predicted:
                    continue
                seen += 1
                edge, leaf, typ = predicted[k]
                got = ev.get("meta", {}).get("type", -9)
                if got == typ:
                    agree += 1
                elif len(drift) < 10:
                    drift.append({"edge": edge, "recipe": list(k), "predicted": leaf, "predicted_type": typ, "got_type": got})
    return {"recipes": len(predicted), "auto_runs_seen": seen, "chose_predicted_leaf": agree, "drift_examples": drift,
            "leaves": sorted({v[1] for v in predicted.values()})}


def run(pid, tier):
    t0 = time.time()
    work = vlib.scratch(pid)
    model = Model()
    try:
        path, nsc, predicted = scenarios(work, tier, PURPOSE[pid], model)
        tiers = tiers_for(pid, tier)
        shards = vlib.NCPU
        traces = []
        # thorough: every scenario class is materialised under several seeds (other values inside the class)
        seeds = [vlib.SEED] if tier == "quick" else [vlib.SEED + 101 * k for k in range(4)]
        small = path + ".small"     # further seeds skip the very long arrays (their classes do not depend on the seed)
        with open(path) as fi, open(small, "w") as fo:
            for ln in fi:
                if int(ln.split()[2]) <= 5000 and "giantrun" not in ln:
                    fo.write(ln)
        for sd in seeds:
            cmds = []
            for t in tiers:
                drv = vlib.build_driver("drv_codecs", t, LIB, **BUILD)
                for s in range(shards):
                    out = os.path.join(work, "cod-%s-%d-%02d.ndjson" % (t, sd, s))
                    traces.append(out)
                    cmds.append([drv, path if sd == seeds[0] else small, str(s), str(shards), str(WHAT[pid]), out])
            vlib.run_many(cmds, timeout=2400, env={"VERIF_SEED": sd})
        events, rejects, notes = vlib.validate(traces, "StoreTrace.tla", "StoreTrace.cfg", xmx="3g", timeout=1500)
        ntr = len(traces)
        if pid in ("C03", "C16"):
            import area_float
            e2, r2, n2 = area_float.side_rejects(work, model, tier)   # float clauses of C03 / C16
            events, rejects, ntr = events + e2, rejects + r2, ntr + n2
        if pid == "C03":
            import area_alloc
            e2, r2, n2 = area_alloc.side_rejects(work, model, tier)   # advertised sizes under allocation failures
            events, rejects, ntr = events + e2, rejects + r2, ntr + n2
        if pid == "C02":
            import area_scalar
            e2, r2, n2 = area_scalar.side_bits(work, model, tier)     # single-value Elias coders, zig-zag
            events, rejects, ntr = events + e2, rejects + r2, ntr + n2
        negc = negative_control(traces, pid)
        classes, samples = vlib.classes_of(traces, key)
        selinfo = selector_agreement(traces, predicted) if predicted else None
        rule = ("scenario leaves enumerated by TLC from Scenarios.tla (%d leaves: codec x parameter x length class "
                "straddling 127/128/129, 240/241, 2287/2288, 4095/4096/4097%s x value shape), materialised with "
                "VERIF_SEED, run on tiers %s with exact-size guard-page buffers; class = distinct (codec, parameter, "
                "length, shape) for Enc and (codec, reader) for readers"
                % (nsc, ", 65535/65536/65537" if tier == "thorough" else "", tiers))
        return vlib.finish(pid, tier, t0, model, events, ntr, rejects, samples, classes, rule,
                           ["TLC evaluates StoreTrace.tla/Limbs.tla correctly",
                            "guard pages make any access at or beyond the exact buffer end observable; accesses "
                            "before a buffer are not observed",
                            "inputs inside a scenario class are sampled by seed, not enumerated"],
                           extra={"negative_control": negc, "tiers": tiers, "scenarios": nsc,
                                  "selector_recipes": selinfo,
                                  "wire_format": {"what": "Enc events of FOR/PFOR/RLE/delta/group/dict/Elias gamma+delta arrays/BP128 (32, 64, delta) and the adaptive envelope with <= 40 values compared byte for "
                                                          "byte with Wire.tla (unclaimed conformance fact, never a violation)",
                                                  "checked": notes.get("wire-checked", 0),
                                                  "drift": {k: v for k, v in notes.items() if k.startswith("wire-drift")}},
                                  "analysis_facts": {"what": "varintAdaptiveAnalyze / CheckSorted / CountUnique on arrays of up to 200 "
                                                             "values: count, min, max, range, largest step, unique count, order "
                                                             "flags, bitmap-range flag compared with the same statistics computed "
                                                             "in TLA+ from the values (unclaimed conformance fact)",
                                                     "checked": notes.get("stat-checked", 0),
                                                     "drift": {k: v for k, v in notes.items() if k.startswith("stat-drift")}}})
    finally:
        shutil.rmtree(work, ignore_errors=True)
