#!/usr/bin/env python3
"""Validate MANIFEST.json and evidence/*.json against the schemas (run with python3-vt)."""
import glob, json, sys
import jsonschema
ok = True
jsonschema.validate(json.load(open('/verif/MANIFEST.json')), json.load(open('/root/.vp/MANIFEST.schema.json')))
es = json.load(open('/root/.vp/EVIDENCE.schema.json'))
for p in sorted(glob.glob('/verif/evidence/*.json')):
    try:
        jsonschema.validate(json.load(open(p)), es)
    except Exception as e:
        ok = False
        print("INVALID", p, str(e)[:300])
print("valid" if ok else "INVALID")
sys.exit(0 if ok else 1)
