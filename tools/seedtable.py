#!/usr/bin/env python3
"""Regenerates seeded/README.md: which check catches which seeded change."""
import json, os
R = "/verif/seeded"
rows = []
for d in sorted(os.listdir(R)):
    m = os.path.join(R, d, "meta.json")
    if not os.path.exists(m):
        continue
    meta = json.load(open(m))
    det = {}
    p = os.path.join(R, d, "detected.json")
    if os.path.exists(p):
        det = json.load(open(p))
    cells = []
    for tier in ("quick", "thorough"):
        for prop, r in sorted(det.get(tier, {}).items()):
            cells.append("%s %s: %s" % (prop, tier, "VIOLATION" if r["exit"] == 1 else ("broken" if r["exit"] == 2 else "not detected")))
    rows.append((d, meta["property"], meta["summary"].replace("|", "/").replace("\n", " ")[:230],
                 meta.get("needs", "").replace("|", "/").replace("\n", " ")[:200], "; ".join(cells) or "not run"))
with open(os.path.join(R, "README.md"), "w") as f:
    f.write("# Seeded breaking changes\n\nEach directory: `patch.diff` (applies to /repo HEAD), the sub-agent's demonstration, "
            "`meta.json` (what it breaks, what it needs, how it was confirmed), `detected.json` (what `tools/seedtest.py` observed).\n\n"
            "| dir | property | change | needs | checks |\n|---|---|---|---|---|\n")
    for r in rows:
        f.write("| %s | %s | %s | %s | %s |\n" % r)
print(len(rows), "rows")
