#!/usr/bin/env python3
"""Warm the object cache for the tiers the quick checks use."""
import importlib
import os
import sys
sys.path.insert(0, os.path.dirname(os.path.abspath(__file__)))
import vlib

def main():
    for area in ("area_scalar", "area_codecs", "area_hostile", "area_bitmap", "area_mem", "area_float", "area_alloc", "area_purity", "area_threads"):
        m = importlib.import_module(area)
        if hasattr(m, "prebuild"):
            m.prebuild()
if __name__ == "__main__":
    try:
        main()
    except vlib.Broken as e:
        print("prebuild:", e, file=sys.stderr)
        sys.exit(1)
