"""Shared plumbing for the varint verification checks.

build (from the working tree of $VERIF_REPO, default /repo) -> run drivers ->
TLC trace validation (monitor style) -> rejects -> known-findings filter ->
VIOLATION / KNOWN-FINDING lines + evidence/<id>.json.
"""
import concurrent.futures as cf
import hashlib
import json
import os
import re
import shutil
import subprocess
import sys
import tempfile
import time

ROOT = os.path.dirname(os.path.dirname(os.path.abspath(__file__)))
REPO = os.environ.get("VERIF_REPO", "/repo")
BUILD = os.path.join(ROOT, ".build")
SPEC = os.path.join(ROOT, "spec")
HARN = os.path.join(ROOT, "harness")
EVID = os.environ.get("VERIF_EVIDENCE") or os.path.join(ROOT, "evidence")
TLA_CP = "/opt/veriftools/tla/tla2tools.jar:/opt/veriftools/tla/CommunityModules-deps.jar"
NCPU = min(16, os.cpu_count() or 4)
SEED = int(os.environ.get("VERIF_SEED", "1") or 1)
GUARD = "MATTSTA_VARINT_VERIF"
SHIM_LD = ["-Wl,--wrap=malloc,--wrap=calloc,--wrap=realloc,--wrap=free"]

TIERS = {
    # what CMakeCache (RelWithDebInfo) + src/CMakeLists.txt produce
    "pinned": (["gcc"], ["-O2", "-g", "-DNDEBUG", "-std=c11", "-mtune=native", "-O3", "-fPIC"]),
    "debug": (["gcc"], ["-O0", "-g", "-std=c11", "-fPIC"]),
    # alignment is excluded: the library stores and loads multi-byte words at byte-packed (unaligned)
    # addresses by design (*(uint64_t *)dst in varintExternalBigEndian.c, the bitstream, packed arrays);
    # that is outside the listed properties and harmless on the x86-64 targets the build supports
    "san": (["clang-14"], ["-O1", "-g", "-std=c11", "-fsanitize=address,undefined", "-fno-sanitize=alignment",
                           "-fno-sanitize-recover=undefined", "-fno-omit-frame-pointer"]),
    "tsan": (["clang-14"], ["-O1", "-g", "-std=c11", "-fsanitize=thread"]),
    # the sources also compile at the older language level that many embedders still use (-std=gnu99 replaces
    # every other -std flag in build_driver): _Thread_local, _Alignas, _Atomic do not exist there
    "c99": (["gcc"], ["-O2", "-g", "-DNDEBUG", "-mtune=native", "-O3", "-fPIC"]),
    # + isa_flags(): every instruction-set macro the sources test (on the pinned tree: -mavx2 -mavx512f
    # -mavx512vl -mf16c -msse4.1), added in build_driver
    "simd": (["gcc"], ["-O2", "-g", "-DNDEBUG", "-std=c11", "-O3", "-fPIC"]),
}


# instruction-set macros a source file may test -> the compiler flag that defines them (and the /proc/cpuinfo
# flag of a host that can run the result).  __SSE2__ is on by default on x86-64.
ISA = {"__AVX__": ("-mavx", "avx"), "__AVX2__": ("-mavx2", "avx2"), "__AVX512F__": ("-mavx512f", "avx512f"),
       "__AVX512VL__": ("-mavx512vl", "avx512vl"), "__AVX512BW__": ("-mavx512bw", "avx512bw"),
       "__AVX512DQ__": ("-mavx512dq", "avx512dq"), "__BMI__": ("-mbmi", "bmi1"), "__BMI2__": ("-mbmi2", "bmi2"),
       "__F16C__": ("-mf16c", "f16c"), "__SSE3__": ("-msse3", "pni"), "__SSSE3__": ("-mssse3", "ssse3"),
       "__SSE4_1__": ("-msse4.1", "sse4_1"), "__SSE4_2__": ("-msse4.2", "sse4_2"), "__LZCNT__": ("-mlzcnt", "abm"),
       "__POPCNT__": ("-mpopcnt", "popcnt"), "__FMA__": ("-mfma", "fma"), "__PCLMUL__": ("-mpclmul", "pclmulqdq"),
       "__ADX__": ("-madx", "adx")}
_isa_re = re.compile(r"__(?:AVX[0-9A-Z]*|BMI2?|F16C|SSS?E[0-9_]*|LZCNT|POPCNT|FMA|PCLMUL|ADX)__")


def _host_flags():
    try:
        with open("/proc/cpuinfo") as f:
            for ln in f:
                if ln.startswith("flags"):
                    return set(ln.split(":", 1)[1].split())
    except OSError:
        pass
    return set()


def isa_flags(files=None):
    """Compiler flags that switch on every instruction-set-specific path the tree under test contains (mined from
    the sources: #if defined(__AVX2__), __BMI2__, __F16C__ ...), as far as this host can execute them.  `files`
    restricts the search to some $REPO/src files (.c and .h of the same stem, plus varint.h)."""
    sd = os.path.join(REPO, "src")
    names = sorted(os.listdir(sd))
    if files is not None:
        stems = {os.path.splitext(f)[0] for f in files}
        names = [n for n in names if os.path.splitext(n)[0] in stems or n == "varint.h"]
    macros = set()
    for n in names:
        p = os.path.join(sd, n)
        if os.path.isfile(p) and n.endswith((".c", ".h")):
            with open(p, errors="replace") as f:
                macros.update(_isa_re.findall(f.read()))
    host = _host_flags()
    out = []
    for m in sorted(macros):
        if m in ISA and ISA[m][1] in host:
            out.append(ISA[m][0])
    # the tree's AVX2 paths use AVX-512VL intrinsics (_mm256_min_epu64): they only compile with these as well
    if "-mavx2" in out:
        for extra, hf in (("-mavx512f", "avx512f"), ("-mavx512vl", "avx512vl")):
            if hf in host and extra not in out:
                out.append(extra)
    return out


def isa_tier(files):
    """["simd"] when the given library files contain instruction-set-specific paths that the default build does
    not compile (so that a check gains the tier exactly when there is something to run in it), else []."""
    return ["simd"] if isa_flags(files) else []


class Broken(Exception):
    """Infrastructure failure: exit 2, never a VIOLATION."""


def log(*a):
    print(*a, file=sys.stderr, flush=True)


def src_hash():
    h = hashlib.sha256()
    sd = os.path.join(REPO, "src")
    for name in sorted(os.listdir(sd)):
        p = os.path.join(sd, name)
        if os.path.isfile(p):
            h.update(name.encode())
            with open(p, "rb") as f:
                h.update(f.read())
    for name in sorted(os.listdir(HARN)):
        p = os.path.join(HARN, name)
        if os.path.isfile(p):
            h.update(name.encode())
            with open(p, "rb") as f:
                h.update(f.read())
    return h.hexdigest()[:16]


_hash = None


COVERAGE = bool(os.environ.get("VERIF_COV"))


def build_dir(tier):
    """Objects are rebuilt whenever any file under $REPO/src or harness/ changes."""
    global _hash
    if _hash is None:
        _hash = src_hash()
    base = os.path.join(BUILD, "obj")
    d = os.path.join(base, _hash, tier + ("-cov" if COVERAGE else ""))
    os.makedirs(d, exist_ok=True)
    # drop objects of older source states (not while several trees are being checked side by side)
    if not os.environ.get("VERIF_KEEP_OBJ"):
        for old in os.listdir(base):
            po = os.path.join(base, old)
            # (a directory touched within the last two hours may belong to a check running side by side on
            # another tree)
            try:
                stale = time.time() - os.path.getmtime(po) > 7200
            except OSError:
                stale = False
            if old != _hash and stale:
                shutil.rmtree(po, ignore_errors=True)
    return d


def build_driver(name, tier, lib, extra_flags=(), extra_src=(), libs=("-lm",)):
    """Compile harness/<name>.c + the listed $REPO/src/*.c into one binary."""
    d = build_dir(tier)
    out = os.path.join(d, name)
    if os.path.exists(out):
        return out
    cc, flags = TIERS[tier]
    if tier == "simd":
        flags = flags + isa_flags()
    if COVERAGE and cc[0] == "gcc":
        # tools/covaudit.py: which library lines do the drivers reach?  -O0 keeps the line attribution exact
        flags = [f for f in flags if f not in ("-O2", "-O3")] + ["-O0", "--coverage"]
    srcs = [os.path.join(HARN, name + ".c")] + [os.path.join(HARN, s) for s in extra_src]
    srcs += [os.path.join(REPO, "src", s) for s in lib]
    tmp = out + ".tmp%d" % os.getpid()
    cmd = cc + flags + ["-D" + GUARD, "-w", "-I" + os.path.join(REPO, "src"), "-I" + HARN]
    if tier == "c99":
        extra_flags = [f for f in extra_flags if not f.startswith("-std=")] + ["-std=gnu99"]
    cmd += list(extra_flags) + srcs + ["-o", tmp] + list(libs)
    r = subprocess.run(cmd, capture_output=True, text=True)
    if r.returncode != 0:
        raise Broken("build of %s (%s) failed:\n%s" % (name, tier, r.stderr[-3000:]))
    os.replace(tmp, out)
    return out


def scratch(prefix):
    d = os.path.join(BUILD, "run")
    os.makedirs(d, exist_ok=True)
    return tempfile.mkdtemp(prefix=prefix + "-", dir=d)


REJ = re.compile(r'<<\s*"REJECT",\s*(\d+),\s*"([^"]*)",\s*"([^"]*)"\s*>>', re.S)
NOTE = re.compile(r'<<\s*"NOTE",\s*"([^"]*)",\s*(-?\d+)\s*>>', re.S)
STAT = re.compile(r"(\d+) states generated, (\d+) distinct states found")


def _sum_notes(pairs):
    d = {}
    for a, b in pairs:
        d[a] = d.get(a, 0) + int(b)
    return d


def tlc(module, cfg, env=None, workers=1, xmx="2g", timeout=900, extra=()):
    """Run TLC in spec/. Returns dict(out, rc, generated, distinct, rejects, ok)."""
    meta = tempfile.mkdtemp(prefix="tlc-", dir=_mk(os.path.join(BUILD, "tlc")))
    e = dict(os.environ)
    e.pop("JAVA_TOOL_OPTIONS", None)
    if env:
        e.update({k: str(v) for k, v in env.items()})
    # the JVM's own temporary files (TLC unpacks its standard modules there) go into the run's metadir, which is
    # removed below, instead of piling up under /tmp
    cmd = ["java", "-XX:+UseParallelGC", "-Xmx" + xmx, "-Xss16m", "-Djava.io.tmpdir=" + meta, "-cp", TLA_CP, "tlc2.TLC",
           "-workers", str(workers), "-metadir", meta, "-config", cfg] + list(extra) + [module]
    t0 = time.time()
    try:
        r = subprocess.run(cmd, cwd=SPEC, env=e, capture_output=True, text=True, timeout=timeout)
        out, rc = r.stdout + r.stderr, r.returncode
    except subprocess.TimeoutExpired as ex:
        out = ((ex.stdout or b"").decode(errors="replace") if isinstance(ex.stdout, bytes) else (ex.stdout or ""))
        out += "\nTIMEOUT"
        rc = 124
    finally:
        shutil.rmtree(meta, ignore_errors=True)
    m = None
    for m in STAT.finditer(out):
        pass
    res = {
        "out": out, "rc": rc, "wall": time.time() - t0,
        "generated": int(m.group(1)) if m else 0,
        "distinct": int(m.group(2)) if m else 0,
        "rejects": [(int(a), b, c) for a, b, c in REJ.findall(out)],
        "notes": _sum_notes(NOTE.findall(out)),
        "ok": "Model checking completed. No error has been found." in out and rc == 0,
    }
    return res


def _mk(d):
    os.makedirs(d, exist_ok=True)
    return d


def tlc_or_broken(module, cfg, **kw):
    r = tlc(module, cfg, **kw)
    if not r["ok"]:
        raise Broken("TLC %s/%s did not complete cleanly (rc=%s):\n%s" % (module, cfg, r["rc"], _tail(r["out"])))
    return r


def _tail(s, n=40):
    lines = [x for x in s.splitlines() if not x.startswith(("Semantic processing", "Linting of", "Parsing file"))]
    return "\n".join(lines[-n:])


def run_many(cmds, timeout=900, env=None):
    """Run commands in parallel (<= NCPU at a time); raise Broken on failure."""
    e = dict(os.environ)
    if env:
        e.update({k: str(v) for k, v in env.items()})

    def one(c):
        try:
            r = subprocess.run(c, capture_output=True, text=True, timeout=timeout, env=e)
            return c, r.returncode, r.stderr[-2000:]
        except subprocess.TimeoutExpired:
            return c, 124, "timeout"

    with cf.ThreadPoolExecutor(NCPU) as ex:
        res = list(ex.map(one, cmds))
    for c, rc, err in res:
        if rc != 0:
            raise Broken("driver failed rc=%s: %s\n%s" % (rc, " ".join(c), err))


def count_lines(path):
    n = 0
    with open(path, "rb") as f:
        for _ in f:
            n += 1
    return n


def read_line(path, lineno):
    with open(path) as f:
        for i, ln in enumerate(f, 1):
            if i == lineno:
                return ln
    return None


def _strip_died(path):
    """A driver that dies outside a guarded call ends its trace with {"e":"Died","sig":N} (harness/trace.h),
    possibly after a half-written line.  Removes both from the file; returns {"sig", "line", "last"} or None."""
    size = os.path.getsize(path)
    with open(path, "rb") as f:
        f.seek(max(0, size - (1 << 20)))
        tail = f.read()
    lines = tail.split(b"\n")
    while lines and not lines[-1].strip():
        lines.pop()
    if not lines or b'"e":"Died"' not in lines[-1]:
        return None
    try:
        ev = json.loads(lines[-1])
    except ValueError:
        return None
    cut = len(lines[-1])
    lines.pop()
    while lines and not lines[-1].strip():
        cut += len(lines[-1]) + 1
        lines.pop()
    last = None
    if lines:
        try:
            last = json.loads(lines[-1])
        except ValueError:          # the line being written when the process died
            cut += len(lines[-1]) + 1
            lines.pop()
            try:
                last = json.loads(lines[-1]) if lines else None
            except ValueError:
                last = None
    # keep everything up to and including the last complete line
    keep = tail[:len(b"\n".join(lines))] if lines else b""
    with open(path, "r+b") as f:
        f.truncate(max(0, size - len(tail)) + len(keep))
        if keep:
            f.seek(0, 2)
            f.write(b"\n")
    return {"sig": ev.get("sig"), "line": count_lines(path), "last": last}


def validate(traces, module, cfg, xmx="2g", timeout=900, env=None):
    """TLC trace validation of each shard (one JVM each, -workers 1).
    Returns (events, rejects[(trace, line, prop, reason, event)], notes)."""
    traces = [t for t in traces if os.path.getsize(t) > 0]
    died = {}
    for t in traces:
        d = _strip_died(t)
        if d:
            died[t] = d
    traces = [t for t in traces if os.path.getsize(t) > 0]

    def one(t):
        n = count_lines(t)
        e = {"TRACE": t}
        if env:
            e.update(env)
        r = tlc(module, cfg, env=e, workers=1, xmx=xmx, timeout=timeout)
        if not r["ok"] or r["distinct"] != n + 1:
            raise Broken("trace validation of %s did not consume the trace (%d lines, %d states, rc=%s):\n%s"
                         % (t, n, r["distinct"], r["rc"], _tail(r["out"])))
        return t, n, r

    events = 0
    rejects = []
    notes = {}
    with cf.ThreadPoolExecutor(NCPU) as ex:
        for t, n, r in ex.map(one, traces):
            events += n
            need = sorted({ln for ln, _, _ in r["rejects"]})
            evs = {}
            if need:
                with open(t) as f:
                    want = set(need)
                    for i, ln in enumerate(f, 1):
                        if i in want:
                            evs[i] = json.loads(ln)
            for ln, prop, why in r["rejects"]:
                rejects.append({"trace": t, "line": ln, "prop": prop, "why": why, "event": evs.get(ln)})
            for k, v in r["notes"].items():
                notes[k] = notes.get(k, 0) + v
    for t, d in died.items():
        # "Died" is an action of no trace specification: the trace is rejected at that line
        rejects.append({"trace": t, "line": d["line"], "prop": "ANY",
                        "why": "the process died outside an observed library call (signal %s): the allocator found the "
                               "heap corrupted by an earlier call, or an assertion / crash in an unguarded call" % d["sig"],
                        "event": d["last"]})
    return events, rejects, notes


# ---------------------------------------------------------------- Apalache (unbounded lemmas)
def apalache(module_path, inv, timeout=240):
    """apalache-mc check --length=0 --inv=<inv>: the invariant holds in EVERY initial state (symbolic integers).
    Returns "proved" | "violated" | "unknown" (timeout / tool failure)."""
    out = tempfile.mkdtemp(prefix="apa-", dir=_mk(os.path.join(BUILD, "tlc")))
    e = dict(os.environ)
    e.pop("JAVA_TOOL_OPTIONS", None)
    try:
        r = subprocess.run(["apalache-mc", "check", "--length=0", "--inv=" + inv, "--out-dir=" + out,
                            "--run-dir=" + os.path.join(out, "run"), module_path],
                           cwd=os.path.dirname(module_path), env=e, capture_output=True, text=True, timeout=timeout)
        txt = r.stdout + r.stderr
    except subprocess.TimeoutExpired:
        txt = "TIMEOUT"
    finally:
        shutil.rmtree(out, ignore_errors=True)
    if "EXITCODE: OK" in txt and "NoError" in txt:
        return "proved"
    if "EXITCODE: ERROR (12)" in txt and "invariant 0 violated" in txt:
        return "violated"
    return "unknown"


def unbounded_lemmas(model, module, invs, neg_edit):
    """Discharge the invariants of spec/<module>.tla with Apalache over symbolic 64-bit integers and make sure
    the check is not vacuous (neg_edit = (old, new, inv): the edited copy must violate inv).
    A lemma Apalache cannot decide in time is reported as "unknown" (the bounded TLC result still stands);
    a lemma it refutes means the specification contradicts itself: the run is broken."""
    res = {}
    path = os.path.join(SPEC, module + ".tla")
    d = scratch("apaneg")
    try:
        with open(path) as f:
            txt = f.read()
        old, new, neg_inv = neg_edit
        if old not in txt:
            raise Broken("negative control edit does not apply to %s" % module)
        neg = os.path.join(d, module + "Neg.tla")
        with open(neg, "w") as f:
            f.write(txt.replace(old, new).replace("MODULE " + module, "MODULE " + module + "Neg"))
        jobs = [(path, inv) for inv in invs] + [(neg, neg_inv)]
        with cf.ThreadPoolExecutor(len(jobs)) as ex:
            outs = list(ex.map(lambda j: apalache(*j), jobs))
        for inv, r in zip(invs, outs):
            res[inv] = r
            if r == "violated":
                raise Broken("Apalache refutes %s!%s: the specification is inconsistent" % (module, inv))
        if outs[-1] == "proved":
            raise Broken("Apalache accepts the deliberately wrong variant of %s!%s: the lemma is vacuous" % (module, neg_inv))
        res["negative_control"] = {"edit": "%s -> %s" % (old.strip()[:60], new.strip()[:60]), "result": outs[-1]}
    finally:
        shutil.rmtree(d, ignore_errors=True)
    model.extra_facts = getattr(model, "extra_facts", {})
    model.extra_facts["apalache:" + module] = res
    return res


# ---------------------------------------------------------------- constants of the tree under test
def mined_constants():
    """Integer literals (and 1<<k, (1<<k)-1) that occur in the library sources of the tree under test.
    Comparisons against constants are where value classes switch; the generators put every such constant
    and its neighbours into their boundary domains, so a threshold introduced by a change is exercised
    without anybody having to know about it."""
    import glob
    vals = set()
    for f in sorted(glob.glob(os.path.join(REPO, "src", "*.[ch]"))):
        b = os.path.basename(f)
        if "Test" in b or "test" in b or "Bench" in b:
            continue
        with open(f, errors="ignore") as fh:
            t = fh.read()
        t = re.sub(r"/\*.*?\*/", "", t, flags=re.S)
        t = re.sub(r"//.*", "", t)
        for m in re.finditer(r"\b(0[xX][0-9a-fA-F]+|\d+)(?:[uUlL]*)\b", t):
            try:
                v = int(m.group(1), 0)
            except ValueError:
                continue
            if v < 2 ** 64:
                vals.add(v)
        for m in re.finditer(r"1[uUlL]*\s*<<\s*(\d+)", t):
            k = int(m.group(1))
            if k < 64:
                vals.add(1 << k)
                vals.add((1 << k) - 1)
    return sorted(vals)


# ---------------------------------------------------------------- findings
def load_known():
    p = os.path.join(ROOT, "known_findings.json")
    if not os.path.exists(p):
        return []
    with open(p) as f:
        return json.load(f).get("findings", [])


def _match(entry, rej):
    if entry.get("property") != rej["prop"]:
        return False
    if "why" in entry and entry["why"] != rej["why"]:
        return False
    ev = rej.get("event") or {}
    for k, v in entry.get("match", {}).items():
        cur = ev
        for part in k.split("."):
            if not isinstance(cur, dict) or part not in cur:
                return False
            cur = cur[part]
        if isinstance(v, dict) and "in" in v:
            if cur not in v["in"]:
                return False
        elif cur != v:
            return False
    return True


def sig(rej):
    ev = rej.get("event") or {}
    keys = ("e", "fam", "codec", "param", "api", "put", "get", "op", "kind", "mode", "prec", "cfg", "word", "enc", "reader")
    return (rej["prop"], rej["why"]) + tuple(str(ev.get(k)) for k in keys if k in ev)


def finish(pid, tier, t0, model, events, traces, rejects, samples, classes, rule, assumptions, extra=None,
           technique=""):
    """Common tail of every check: classify rejects, print lines, write evidence, return exit code."""
    mine = [r for r in rejects if r["prop"] in (pid, "ANY")]
    harness = [r for r in mine if r["why"].startswith("H:")]
    mine = [r for r in mine if not r["why"].startswith("H:")]
    if harness:
        for r in harness[:5]:
            log("HARNESS-INCONSISTENCY", r["why"], json.dumps(r.get("event"))[:400])
        if not mine:
            # nothing but set-up inconsistencies: the run proves nothing either way
            raise Broken("the harness and the specification disagree about what was called (%d events)" % len(harness))
        # a broken implementation can also derail scenario set-up; the real rejects below decide
        log("note: %d set-up inconsistencies ignored next to %d rejected events" % (len(harness), len(mine)))
    known = load_known()
    viol, kf = {}, {}
    for r in mine:
        hit = next((k for k in known if _match(k, r)), None)
        if hit is not None:
            kf.setdefault(hit["id"], (hit, []))[1].append(r)
        else:
            viol.setdefault(sig(r), []).append(r)
    rdir = _mk(os.path.join(EVID, "replay", pid))
    for f in os.listdir(rdir):
        os.unlink(os.path.join(rdir, f))
    for hid, (hit, rs) in sorted(kf.items()):
        print("KNOWN-FINDING: property=%s %s [%s; %d events this run]" % (pid, hit["description"], hid, len(rs)))
    n = 0
    for s, rs in sorted(viol.items()):
        n += 1
        path = os.path.join(rdir, "v%03d.json" % n)
        with open(path, "w") as f:
            json.dump({"property": pid, "why": rs[0]["why"], "count": len(rs), "seed": SEED, "tier": tier,
                       "events": [r["event"] for r in rs[:5]]}, f, indent=1)
        print("VIOLATION property=%s replay=%s  (%s; %d events; first: %s)"
              % (pid, path, rs[0]["why"], len(rs), json.dumps(rs[0]["event"])[:300]))
    cov = {
        "states": int(model.get("distinct", 0)),
        "transitions": int(model.get("generated", 0)),
        "traces_validated_against_impl": int(traces),
        "evaluations": int(events),
        "distinct_nontrivial": int(classes),
        "rule": rule,
        "samples": samples[:12] if samples else ["(none)"],
        "model_runs": model.get("runs", []),
        "rejected_events": len(mine),
        "known_findings_seen": sorted(kf.keys()),
        "exhaustive": False,
    }
    if extra:
        cov.update(extra)
    ev = {
        "property_id": pid, "tier": tier, "seed": SEED, "level": "model_checking",
        "coverage": cov, "assumptions": assumptions, "wall_s": round(time.time() - t0, 2),
        "violations": len(viol),
    }
    _mk(EVID)
    with open(os.path.join(EVID, pid + ".json"), "w") as f:
        json.dump(ev, f, indent=1)
    log("%s %s: %d events, %d traces, model %d states; %d violation classes, %d known findings; %.1fs"
        % (pid, tier, events, traces, cov["states"], len(viol), len(kf), time.time() - t0))
    return 1 if viol else 0


class Model:
    """Accumulates the exhaustive-small / generation TLC runs of one check."""

    def __init__(self):
        self.distinct = 0
        self.generated = 0
        self.runs = []

    def add(self, name, r):
        self.distinct += r["distinct"]
        self.generated += r["generated"]
        self.runs.append({"spec": name, "distinct": r["distinct"], "generated": r["generated"],
                          "wall_s": round(r["wall"], 1)})

    def get(self, k, d=None):
        return {"distinct": self.distinct, "generated": self.generated, "runs": self.runs}.get(k, d)


def classes_of(traces, keyfn, limit=None):
    """Distinct non-trivial classes + first sample per event kind, measured from the traces."""
    seen = set()
    samples = {}
    for t in traces:
        with open(t) as f:
            for ln in f:
                try:
                    ev = json.loads(ln)
                except ValueError:
                    continue
                k = keyfn(ev)
                if k is not None:
                    seen.add(k)
                kind = ev.get("e")
                if kind not in samples:
                    samples[kind] = _shorten(ev)
    return len(seen), list(samples.values())


def _shorten(ev):
    out = {}
    for k, v in ev.items():
        if isinstance(v, list) and len(v) > 24:
            out[k] = v[:24] + ["...(%d)" % len(v)]
        else:
            out[k] = v
    return out


def negative_control(trace, module, cfg, mutate, env=None):
    """Corrupt one recorded field of the first suitable event; the trace spec must reject it."""
    with open(trace) as f:
        for ln in f:
            ev = json.loads(ln)
            m = mutate(ev)
            if m is not None:
                break
        else:
            raise Broken("negative control: no suitable event in %s" % trace)
    d = scratch("neg")
    p = os.path.join(d, "neg.ndjson")
    with open(p, "w") as f:
        f.write(json.dumps(m) + "\n")
    e = {"TRACE": p}
    if env:
        e.update(env)
    r = tlc(module, cfg, env=e, workers=1, xmx="1g", timeout=300)
    shutil.rmtree(d, ignore_errors=True)
    if not r["ok"]:
        raise Broken("negative control run failed:\n" + _tail(r["out"]))
    real = [x for x in r["rejects"] if not x[2].startswith("H:")]
    if not real:
        raise Broken("negative control was ACCEPTED by %s: the trace spec is vacuous" % module)
    return {"ran": True, "rejected": True, "reasons": sorted({x[2] for x in real})}
