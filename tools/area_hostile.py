"""C14: length-taking decoders on truncated / corrupt / hostile input.

G: HostileGen.tla (TLC builds mutations of documented wire layouts)
V: drv_hostile.c (exact-size guard-page input, fenced allocator, alarm) -> HostileTrace.tla
"""
import json
import os
import random
import re
import shutil
import time

import vlib
from vlib import Broken, Model

LIB = ["varintTagged.c", "varintExternal.c", "varintDict.c", "varintElias.c", "varintBitmap.c", "varintRLE.c",
       "varintBP128.c"]
BUILD = dict(extra_flags=["-std=gnu11"] + vlib.SHIM_LD, extra_src=["allocshim.c"])
HOST = re.compile(r'<<\s*"HOST",\s*"(\w+)",\s*(-?\d+),\s*(-?\d+),\s*"([^"]*)",\s*<<([\d,\s]*)>>\s*>>', re.S)


def prebuild():
    vlib.build_driver("drv_hostile", "pinned", LIB, **BUILD)


def rand_inputs(rng, n):
    out = []
    apis = ["DictDecode", "DictDecodeInto", "EliasGammaDecodeArray", "EliasDeltaDecodeArray", "BitmapDecode",
            "RLEGetRunCount"]
    for _ in range(n):
        api = rng.choice(apis)
        ln = rng.choice([0, 1, 2, 3, 5, 8, 9, 16, 33, 100, 1000, 4096])
        style = rng.randrange(4)
        if style == 0:
            b = [rng.randrange(256) for _ in range(ln)]
        elif style == 1:
            b = [rng.choice([0, 1, 2, 240, 241, 248, 249, 250, 255]) for _ in range(ln)]
        elif style == 2:
            b = [0] * ln
        else:
            b = [255] * ln
        declared = ln * 8 - rng.randrange(0, 8) if api.startswith("Elias") and ln else ln
        if api.startswith("Elias"):
            declared = max(declared, 0)
        cap = rng.choice([0, 1, 7, 64, 1000]) if api not in ("DictDecode", "BitmapDecode", "RLEGetRunCount") else 0
        out.append("%s %d %d random %d %s" % (api, declared, cap, len(b), " ".join(map(str, b))))
    return out


def key(ev):
    return (ev["api"], ev["why"], ev["fault"], min(ev["ret"], 3), ev["nbytes"] > 8)


def run(pid, tier):
    t0 = time.time()
    work = vlib.scratch(pid)
    model = Model()
    try:
        r = vlib.tlc_or_broken("HostileGen.tla", "HostileGen.cfg", workers=4, xmx="2g")
        model.add("HostileGen", r)
        lines = []
        for api, declared, cap, why, bs in HOST.findall(r["out"]):
            b = re.findall(r"\d+", bs)
            nbytes = len(b)
            if api.startswith("Elias"):
                nbytes = len(b)
            lines.append("%s %s %s %s %d %s" % (api, declared, cap, why, nbytes, " ".join(b)))
        if len(lines) < 1000:
            raise Broken("HostileGen produced too few inputs (%d)" % len(lines))
        ngen = len(lines)
        # bounded tagged reader: every first byte x every declared length -1..10 x two payloads
        for b0 in range(256):
            for n in range(-1, 11):
                for pay in (1, 255):
                    mapped = max(min(n, 9), 0)
                    bs = [b0] + [pay] * 8
                    lines.append("TaggedGet %d 0 exhaustive %d %s" % (n, mapped, " ".join(map(str, bs[:mapped]))))
                    if n >= 0:
                        # the 128-block header reader is told its input size as well
                        lines.append("BP128GetCount %d 0 exhaustive %d %s" % (mapped, mapped, " ".join(map(str, bs[:mapped]))))
        rng = random.Random(vlib.SEED)
        nrand = 20000 if tier == "quick" else 1000000
        lines += rand_inputs(rng, nrand)
        path = os.path.join(work, "inputs.txt")
        with open(path, "w") as f:
            f.write("\n".join(lines) + "\n")
        tiers = (["pinned"] if tier == "quick" else ["pinned", "debug"]) + vlib.isa_tier(LIB)
        traces, cmds = [], []
        for t in tiers:
            drv = vlib.build_driver("drv_hostile", t, LIB, **BUILD)
            for s in range(vlib.NCPU):
                out = os.path.join(work, "host-%s-%02d.ndjson" % (t, s))
                traces.append(out)
                cmds.append([drv, path, str(s), str(vlib.NCPU), out])
        vlib.run_many(cmds, timeout=1500)
        events, rejects, _ = vlib.validate(traces, "HostileTrace.tla", "HostileTrace.cfg", xmx="2g")

        def mut(ev):
            if ev["api"] != "TaggedGet" or ev["ret"] < 2:
                return None
            ev = dict(ev)
            ev["ret"] = ev["ret"] - 1
            return ev
        neg = None
        for t_ in traces:
            try:
                neg = vlib.negative_control(t_, "HostileTrace.tla", "HostileTrace.cfg", mut)
                break
            except Broken as ex:
                if "no suitable event" not in str(ex):
                    raise
        if neg is None:
            raise Broken("negative control: no suitable event in any trace")
        classes, samples = vlib.classes_of(traces, key)
        rule = ("inputs: %d mutations of documented wire layouts built by TLC (HostileGen.tla: every truncation point, "
                "header fields forced to 0 / 2^20 / 2^20+1 / 2^32 / 2^61 / 2^63 / 2^64-1, counts beyond the payload, "
                "indices outside the dictionary, unary prefixes that never end, Elias length fields > 64, bitmap "
                "container types 0..3/255 with inconsistent cardinalities), all 256 first bytes x declared lengths "
                "-1..10 for the bounded tagged reader, and %d seeded random byte strings of length 0..4096; class = "
                "(api, mutation class, outcome)" % (ngen, nrand))
        return vlib.finish(pid, tier, t0, model, events, len(traces), rejects, samples, classes, rule,
                           ["reads before the start of the input are not observed",
                            "an allocation is 'unbounded' when a single request exceeds "
                            "8 MiB + 64*declared + 8*cap + 64 KiB (HostileTrace!AllocCapKiB)",
                            "non-termination is observed as a 10 s alarm"],
                           extra={"negative_control": neg, "tiers": tiers, "generated_inputs": ngen})
    finally:
        shutil.rmtree(work, ignore_errors=True)
