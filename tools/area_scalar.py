"""C01, C04, C05, C12: scalar varint families.

E: ScalarModel.tla (formats on the boundary domain), AddModel.tla (add histories)
G: ScalarGen.tla writes the boundary domain; AddModel prints every explored edge
V: drv_scalar.c on the real code -> ScalarTrace.tla
"""
import json
import os
import re
import shutil
import time

import vlib
from vlib import Broken, Model

LIB = ["varintTagged.c", "varintExternal.c", "varintExternalBigEndian.c", "varintChained.c",
       "varintChainedSimple.c", "varintElias.c"]

EDGE = re.compile(r'<<\s*"EDGE",\s*"(\w+)",\s*(\d),\s*(\d+),\s*<<([\d,\s]+)>>,\s*<<([\d,\s]+)>>\s*>>', re.S)


# deliberately wrong variants of TaggedMath.tla that Apalache must refute (the lemma is not vacuous)
NEG_EDIT_ORDER = ("ELSE IF n = 3 THEN 249 * P(8) + (v - 2288) * P(6)", "ELSE IF n = 3 THEN 249 * P(8) + (v - 2288) * P(7)", "OrderInv")
NEG_EDIT_RT = ("ELSE IF n = 3 THEN ((k - 249 * P(8)) \\div P(6)) + 2288", "ELSE IF n = 3 THEN ((k - 249 * P(8)) \\div P(6)) + 2287", "RoundTripInv")


# header-only families the scalar driver instantiates
HDRS = ["varintSplit.h", "varintSplitFull.h", "varintSplitFull16.h", "varintSplitFullNoZero.h", "varintDelta.h"]


def tiers_for(tier):
    # + "simd" exactly when a scalar source tests an instruction-set macro the default build leaves undefined
    return (["pinned", "debug"] if tier == "quick" else ["pinned", "debug", "san"]) + vlib.isa_tier(LIB + HDRS)


def gen_values(work, dense):
    vals = os.path.join(work, "values.ndjson")
    cfg = os.path.join(work, "ScalarGen.cfg")
    mined = os.path.join(work, "mined.ndjson")
    with open(mined, "w") as f:
        for m in vlib.mined_constants():
            f.write(json.dumps({"w": [(m >> (8 * i)) & 255 for i in range(8)]}) + "\n")
    with open(cfg, "w") as f:
        f.write("INIT Init\nNEXT Next\nCONSTANTS Dense = %d\n" % dense)
    r = vlib.tlc_or_broken("ScalarGen.tla", cfg, env={"VALUES": vals, "MINED": mined}, workers=1, xmx="4g")
    if not os.path.exists(vals) or vlib.count_lines(vals) < 500:
        raise Broken("ScalarGen produced no boundary domain")
    return vals, r


def model_formats(vals, model, invariants):
    cfg = os.path.join(os.path.dirname(vals), "ScalarModel.cfg")
    with open(cfg, "w") as f:
        f.write("SPECIFICATION Spec\nCHECK_DEADLOCK FALSE\nINVARIANTS %s\n" % " ".join(invariants))
    r = vlib.tlc_or_broken("ScalarModel.tla", cfg, env={"VALUES": vals}, workers=vlib.NCPU, xmx="6g")
    model.add("ScalarModel[%s]" % ",".join(invariants), r)


def drive(work, tiers, mode, vals, nrandom, extra=None, shards=None):
    shards = shards or vlib.NCPU
    traces, cmds = [], []
    for t in tiers:
        drv = vlib.build_driver("drv_scalar", t, LIB)
        for s in range(shards):
            out = os.path.join(work, "%s-%s-%02d.ndjson" % (mode, t, s))
            traces.append(out)
            cmds.append([drv, mode, vals, str(s), str(shards), str(nrandom), out] + ([extra] if extra else []))
    vlib.run_many(cmds, env={"ASAN_OPTIONS": "detect_leaks=0"})
    return traces


def side_bits(work, model, tier):
    """Events of the single-value Elias coders and zig-zag for the C02 check (ScalarTrace.tla tags them C02)."""
    vals, r = gen_values(work, 300)
    model.add("ScalarGen", r)
    traces = drive(work, ["pinned"], "bits", vals, 2000 if tier == "quick" else 100000, shards=4)
    events, rejects, _ = vlib.validate(traces, "ScalarTrace.tla", "ScalarTrace.cfg")
    return events, rejects, len(traces)


def add_traces(work, model, tier, vals, tiers):
    """AddModel edges replayed on the code (used by C12, and by C04 for the bytes an in-place add leaves)."""
    cfg = os.path.join(work, "AddModel.cfg")
    depth = 2 if tier == "quick" else 3
    with open(cfg, "w") as f:
        f.write("SPECIFICATION Spec\nCONSTANTS D = %d\nINVARIANTS WidthBounded SlotDecodes\n"
                "PROPERTY Isolation\nCHECK_DEADLOCK FALSE\n" % depth)
    r = vlib.tlc_or_broken("AddModel.tla", cfg, workers=vlib.NCPU, xmx="8g", timeout=1500)
    model.add("AddModel[D=%d]" % depth, r)
    edges = set()
    for fam, grow, w, v, a in EDGE.findall(r["out"]):
        edges.add("%s %s %s %s %s" % (fam, grow, w, " ".join(re.findall(r"\d+", v)),
                                      " ".join(re.findall(r"\d+", a))))
    if len(edges) < 100:
        raise Broken("AddModel produced too few edges (%d)" % len(edges))
    efile = os.path.join(work, "edges.txt")
    with open(efile, "w") as f:
        f.write("\n".join(sorted(edges)) + "\n")
    nrand = 3000 if tier == "quick" else 100000
    return drive(work, tiers, "add", vals, nrand, extra=efile), len(edges), depth, nrand


def rt_key(ev):
    e = ev.get("e")
    if e == "RT":
        return ("RT", ev["fam"], ev["put"], ev["get"], ev["pret"], ev["w"])
    if e == "Len":
        return ("Len", ev["fam"], ev["api"], ev["ret"])
    if e == "Signed":
        return ("Signed", ev["w"], ev["x"][7] >= 128)
    if e == "Bits":
        return ("Bits", ev["code"], ev["nbits"])
    if e == "ZigZag":
        return ("ZigZag", ev["n"][7] >= 128, sum(1 for b in ev["n"] if b))
    if e == "Cmp":
        return ("Cmp", len(ev["a"]), len(ev["ka"]), len(ev["kb"]), ev["sign"])
    if e == "Add":
        return ("Add", ev["fam"], ev["grow"], ev["w"], ev["ret"])
    return None


def neg_rt(ev):
    if ev.get("e") != "RT" or ev["pret"] < 3:
        return None
    ev = json.loads(json.dumps(ev))
    ev["win"][ev["start"] + 1] ^= 0x10  # corrupt one encoded byte
    return ev


def neg_rt_val(ev):
    if ev.get("e") != "RT":
        return None
    ev = json.loads(json.dumps(ev))
    ev["val"][0] ^= 1
    return ev


def neg_cmp(ev):
    if ev.get("e") != "Cmp" or ev["sign"] == 0:
        return None
    ev = json.loads(json.dumps(ev))
    ev["a"], ev["b"] = ev["b"], ev["a"]
    return ev


def neg_add(ev):
    if ev.get("e") != "Add" or ev["ret"] == 0:
        return None
    ev = json.loads(json.dumps(ev))
    ev["post"][-1] ^= 0xFF  # a byte far outside the slot changed
    return ev


def check_rt(pid, tier):
    t0 = time.time()
    work = vlib.scratch(pid)
    model = Model()
    try:
        dense = 300 if tier == "quick" else 1000
        vals, r = gen_values(work, dense)
        model.add("ScalarGen", r)
        if pid == "C01":
            model_formats(vals, model, ["RoundTrip", "LenAgrees", "FixedRoundTrip", "BoundedReader", "ZigZagRT", "KeyBridge"])
            lemmas = vlib.unbounded_lemmas(model, "TaggedMath", ["RoundTripInv", "ZigZagInv", "RangeInv"], NEG_EDIT_RT)
        else:
            model_formats(vals, model, ["Monotone", "Shortest", "Injective", "LenAgrees", "KeyBridge"])
            lemmas = vlib.unbounded_lemmas(model, "TaggedMath", ["OrderInv", "RoundTripInv"], NEG_EDIT_ORDER)
        nrand = 4000 if tier == "quick" else 100000   # ~60 events per value and tier: 3*10^7 events in all
        traces = drive(work, tiers_for(tier), "rt", vals, nrand)
        if pid == "C01":
            traces += drive(work, tiers_for(tier), "sgn", vals, 300 if tier == "quick" else 30000, shards=2)
        else:
            traces += drive(work, tiers_for(tier), "bits", vals, 2000 if tier == "quick" else 100000, shards=4)
            # an in-place add is a producer of tagged bytes too: they must be the documented encoding
            traces += add_traces(work, model, tier, vals, ["pinned"])[0]
        events, rejects, _ = vlib.validate(traces, "ScalarTrace.tla", "ScalarTrace.cfg", timeout=3000)
        neg = vlib.negative_control(traces[0], "ScalarTrace.tla", "ScalarTrace.cfg",
                                    neg_rt_val if pid == "C01" else neg_rt)
        classes, samples = vlib.classes_of(traces, rt_key)
        rule = ("values: boundary domain generated by TLC from the spec's threshold tables (ScalarGen.tla: every "
                "documented per-length maximum of every family +-2, 2^k +-2, byte patterns, all v < %d) plus %d "
                "seeded values of uniformly distributed bit length; every put/get/len entry point (functions and "
                "macros, fixed widths, reversed forms, 32-bit forms) x build tiers %s; a class is a distinct "
                "(family, put api, get api, encoded length, fixed width) / (family, length api, result)"
                % (dense, nrand, tiers_for(tier)))
        return vlib.finish(pid, tier, t0, model, events, len(traces), rejects, samples, classes, rule,
                           ["TLC evaluates ScalarBytes.tla correctly", "x86-64 little-endian host",
                            "driver logs what the library returned (window bytes, return values) unmodified",
                            "values outside the boundary domain are sampled, not enumerated"],
                           extra={"negative_control": neg, "tiers": tiers_for(tier),
                                  "unbounded_lemmas_apalache": lemmas})
    finally:
        shutil.rmtree(work, ignore_errors=True)


def check_C05(tier):
    t0 = time.time()
    work = vlib.scratch("C05")
    model = Model()
    try:
        vals, r = gen_values(work, 300 if tier == "quick" else 3000)
        model.add("ScalarGen", r)
        model_formats(vals, model, ["TaggedOrder", "TaggedPrefixFree", "Injective", "KeyBridge"])
        lemmas = vlib.unbounded_lemmas(model, "TaggedMath", ["OrderInv", "RangeInv"], NEG_EDIT_ORDER)
        nrand = 20000 if tier == "quick" else 1000000
        traces = drive(work, tiers_for(tier), "cmp", vals, nrand)
        events, rejects, _ = vlib.validate(traces, "ScalarTrace.tla", "ScalarTrace.cfg")
        neg = vlib.negative_control(traces[0], "ScalarTrace.tla", "ScalarTrace.cfg", neg_cmp)
        classes, samples = vlib.classes_of(traces, rt_key)
        rule = ("pairs: all adjacent pairs of the sorted boundary domain in both orders and each value with itself "
                "(order on the whole domain follows by transitivity), pairs differing in exactly one byte, a+1, "
                "random pairs, tuples of length 1..3 over the domain; class = (arity, key lengths, sign)")
        return vlib.finish("C05", tier, t0, model, events, len(traces), rejects, samples, classes, rule,
                           ["memcmp over the common prefix then length is the key comparison of the caller",
                            "TLC evaluates ScalarBytes.tla correctly"],
                           extra={"negative_control": neg, "tiers": tiers_for(tier),
                                  "unbounded_lemmas_apalache": lemmas})
    finally:
        shutil.rmtree(work, ignore_errors=True)


def check_C12(tier):
    t0 = time.time()
    work = vlib.scratch("C12")
    model = Model()
    try:
        vals, r = gen_values(work, 300)
        model.add("ScalarGen", r)
        traces, nedges, depth, nrand = add_traces(work, model, tier, vals, tiers_for(tier))
        edges = range(nedges)
        events, rejects, _ = vlib.validate(traces, "ScalarTrace.tla", "ScalarTrace.cfg")
        neg = vlib.negative_control(traces[0], "ScalarTrace.tla", "ScalarTrace.cfg", neg_add)
        classes, samples = vlib.classes_of(traces, rt_key)
        rule = ("edges: every transition TLC explored in AddModel.tla (histories of depth %d from every documented "
                "length boundary with amounts landing on / just beyond every boundary, +-1, +-2^k, int64 edges; "
                "%d distinct (family, grow, width, stored, amount) edges) replayed on the real code, plus %d "
                "seeded 6-step walks whose slot state is carried by the trace spec; class = (family, grow, "
                "width, returned width)" % (depth, len(edges), nrand))
        return vlib.finish("C12", tier, t0, model, events, len(traces), rejects, samples, classes, rule,
                           ["TLC evaluates ScalarBytes.tla correctly", "slot memory is observed 4-7 bytes before "
                            "and >= 9 bytes after the varint"],
                           extra={"negative_control": neg, "tiers": tiers_for(tier), "edges": len(edges)})
    finally:
        shutil.rmtree(work, ignore_errors=True)


def prebuild():
    for t in ("pinned", "debug"):
        vlib.build_driver("drv_scalar", t, LIB)


def run(pid, tier):
    if pid in ("C01", "C04"):
        return check_rt(pid, tier)
    if pid == "C05":
        return check_C05(tier)
    if pid == "C12":
        return check_C12(tier)
    raise Broken("unknown property " + pid)
