"""C09, C10, C11: memory-level machines (packed arrays, dimension/matrix, bitstream).

E: small exhaustive TLA+ model of the algorithm against the flat-bit-string contract (+ negative control)
V: driver with before/after images and guard pages -> trace spec
"""
import json
import os
import shutil
import time

import vlib
from vlib import Broken, Model


def clean_ttrace():
    for f in os.listdir(vlib.SPEC):
        if "_TTrace_" in f or f.endswith(".bin"):
            try:
                os.unlink(os.path.join(vlib.SPEC, f))
            except OSError:
                pass


def model_with_neg(work, model, module, consts, neg_consts, must_contain, props="", workers=None):
    cfg = os.path.join(work, module + ".cfg")
    with open(cfg, "w") as f:
        f.write("SPECIFICATION Spec\nCONSTANTS\n%s\n%sCHECK_DEADLOCK FALSE\n" % (consts, props))
    r = vlib.tlc_or_broken(module + ".tla", cfg, workers=workers or vlib.NCPU, xmx="6g", timeout=1500)
    model.add("%s[%s]" % (module, consts.replace("\n", ",")), r)
    with open(cfg, "w") as f:
        f.write("SPECIFICATION Spec\nCONSTANTS\n%s\n%sCHECK_DEADLOCK FALSE\n" % (neg_consts, props))
    r = vlib.tlc(module + ".tla", cfg, workers=4, xmx="2g", timeout=600)
    clean_ttrace()
    if must_contain not in r["out"]:
        raise Broken("%s negative control found no counterexample: model is vacuous" % module)
    return {"ran": True, "counterexample_found": True}


# ------------------------------------------------------------------ C11
BS_SRC = ["bs_inst_64.c", "bs_inst_32.c", "bs_inst_16.c", "bs_inst_8.c"]


def run_c11(tier):
    t0 = time.time()
    work = vlib.scratch("C11")
    model = Model()
    try:
        negm = model_with_neg(work, model, "BitstreamModel", "WB = 4\nMaskBits = 4", "WB = 4\nMaskBits = 8",
                              "Set violates the bit-string contract")
        if tier == "thorough":
            cfg = os.path.join(work, "bs8.cfg")
            with open(cfg, "w") as f:
                f.write("SPECIFICATION Spec\nCONSTANTS\nWB = 5\nMaskBits = 5\nCHECK_DEADLOCK FALSE\n")
            r = vlib.tlc_or_broken("BitstreamModel.tla", cfg, workers=vlib.NCPU, xmx="12g", timeout=3000)
            model.add("BitstreamModel[WB=5]", r)
        tiers = ["pinned", "debug"] if tier == "quick" else ["pinned", "debug", "san"]
        traces, cmds = [], []
        for t in tiers:
            drv = vlib.build_driver("drv_bitstream", t, [], extra_flags=["-std=gnu11"], extra_src=BS_SRC)
            for s in range(vlib.NCPU):
                out = os.path.join(work, "bs-%s-%02d.ndjson" % (t, s))
                traces.append(out)
                cmds.append([drv, str(s), str(vlib.NCPU), "1" if tier == "thorough" else "0", out])
        vlib.run_many(cmds, env={"ASAN_OPTIONS": "detect_leaks=0:handle_segv=0:allow_user_segv_handler=1"})
        events, rejects, _ = vlib.validate(traces, "BitstreamTrace.tla", "BitstreamTrace.cfg")

        def mut(ev):
            if ev.get("e") != "Bs" or ev["mode"] != "iso" or ev["fault"]:
                return None
            ev = json.loads(json.dumps(ev))
            ev["post"][0] ^= 0x80  # a bit of the word BEFORE the range changed
            return ev
        neg = vlib.negative_control(traces[0], "BitstreamTrace.tla", "BitstreamTrace.cfg", mut)
        classes, samples = vlib.classes_of(
            traces, lambda ev: (ev["e"], ev.get("word"), ev.get("mode"), ev.get("off", 0) % 64, ev.get("width")))
        rule = ("cases: word types uint64_t (default), uint32_t/uint16_t/uint8_t (VBITS/VBITSVAL as documented) x every "
                "offset mod word x every width 1..word%s x values {0, ones, 0101.., top bit, random} x prior contents "
                "{zeros, ones, random}; each in an isolation layout (a word before and after, full images compared) "
                "and a tight layout (only the overlapping words, guard page behind); signed helpers for widths 2..64 "
                "at 0, +-1, +-max, +-max/2, random; class = (word, layout, offset, width)"
                % (" (64-bit grid thinned to offsets 0,1,7k,63 and widths 5k,63,64 in quick)" if tier == "quick" else ""))
        return vlib.finish("C11", tier, t0, model, events, len(traces), rejects, samples, classes, rule,
                           ["accesses to words BEFORE the first overlapping word are not observed",
                            "values wider than the declared width are outside the API's domain and not issued"],
                           extra={"negative_control": neg, "model_negative_control": negm, "tiers": tiers})
    finally:
        shutil.rmtree(work, ignore_errors=True)


# ------------------------------------------------------------------ C09
def run_c09(tier):
    import re
    import gen_packed
    t0 = time.time()
    work = vlib.scratch("C09")
    model = Model()
    try:
        depth = 4 if tier == "quick" else 5
        cfg = os.path.join(work, "PackedModel.cfg")
        with open(cfg, "w") as f:
            f.write("SPECIFICATION Spec\nCONSTANTS Depth = %d\nVals = {0, 1, 5, 7}\nINVARIANTS Sorted Bounded\n"
                    "CHECK_DEADLOCK FALSE\n" % depth)
        r = vlib.tlc_or_broken("PackedModel.tla", cfg, workers=vlib.NCPU, xmx="6g", timeout=1500)
        model.add("PackedModel[depth=%d]" % depth, r)
        cfgs = gen_packed.configs(r["out"])
        committed = gen_packed.render(cfgs)
        with open(os.path.join(vlib.HARN, "pk_gen.c")) as f:
            if f.read() != committed:
                raise Broken("harness/pk_gen.c is stale: run tools/gen_packed.py on PackedModel's output")
        lines = []
        for w in re.findall(r'<<\s*"PWALK",\s*<<(.*?)>>\s*>>\s*>>', r["out"], re.S):
            ops = re.findall(r'<<\s*"(\w+)",\s*(\d+)\s*>>', w + ">>")
            lines.append("PW " + " ;".join("%s %s" % (o, a) for o, a in ops))
        if len(lines) < 1000:
            raise Broken("PackedModel produced too few walks")
        path = os.path.join(work, "pwalks.txt")
        with open(path, "w") as f:
            f.write("\n".join(lines) + "\n")
        tiers = ["pinned", "debug"] if tier == "quick" else ["pinned", "debug", "san"]
        traces, cmds = [], []
        for t in tiers:
            drv = vlib.build_driver("drv_packed", t, [], extra_flags=["-std=gnu11"], extra_src=["pk_gen.c"])
            for s_ in range(vlib.NCPU):
                out = os.path.join(work, "pk-%s-%02d.ndjson" % (t, s_))
                traces.append(out)
                cmds.append([drv, path, str(s_), str(vlib.NCPU), out])
        vlib.run_many(cmds, env={"ASAN_OPTIONS": "detect_leaks=0:handle_segv=0:allow_user_segv_handler=1"})
        events, rejects, _ = vlib.validate(traces, "PackedTrace.tla", "PackedTrace.cfg", xmx="3g")

        def mut(ev):
            if ev.get("e") != "Pk" or ev["mode"] != "iso" or ev["fault"]:
                return None
            ev = json.loads(json.dumps(ev))
            ev["post"][0] ^= 1  # a bit of the guard slot before the array changed
            return ev
        neg = vlib.negative_control(traces[0], "PackedTrace.tla", "PackedTrace.cfg", mut)
        classes, samples = vlib.classes_of(
            traces, lambda ev: (ev["e"], ev.get("cfg"), ev.get("op"), ev.get("mode"), ev.get("i", ev.get("len"))))
        rule = ("configurations: the %d admissible <bits 1..32, slot 8/16/32/64> pairs enumerated by TLC "
                "(PackedModel.tla, an element never spans more than two slots) plus the compact / micro-promotion "
                "variants instantiated in the tree; per configuration every element position of one full slot "
                "period x values {0, ones, 0101.., top bit, random} x prior {zeros, ones, random}, increments "
                "{0, 1, up to max} and halving, isolation layout (guard slot before and after) and tight layout "
                "(guard page behind the array; first, middle, last element); sorted layer: all %d operation "
                "sequences of length %d over values {0,1,5,7} distributed over the configurations, plus random "
                "positional insert/delete walks; class = (configuration, operation, layout, position)"
                % (len(cfgs), len(lines), depth))
        return vlib.finish("C09", tier, t0, model, events, len(traces), rejects, samples, classes, rule,
                           ["little-endian host (the layout claim of Packed.tla)",
                            "slot accesses BEFORE the array are not observed",
                            "bit widths above 32 are outside the property"],
                           extra={"negative_control": neg, "tiers": tiers, "configurations": len(cfgs)})
    finally:
        shutil.rmtree(work, ignore_errors=True)


# ------------------------------------------------------------------ C10
DIM_LIB = ["varintDimension.c", "varintExternal.c"]


def run_c10(tier):
    import re
    t0 = time.time()
    work = vlib.scratch("C10")
    model = Model()
    try:
        r = vlib.tlc_or_broken("DimensionModel.tla", "DimensionModel.cfg", workers=4, xmx="2g")
        model.add("DimensionModel", r)
        # pair packing for EVERY supported pair, by Apalache (TLC decides it at the width boundaries)
        lemmas = vlib.unbounded_lemmas(model, "DimensionMath", ["PackInv"],
                                       ("Packed(rr, cc) == rr * P16(Level(Max2(rr, cc))) + cc",
                                        "Packed(rr, cc) == rr * P16(Level(rr)) + cc", "PackInv"))
        dims = set()
        for a, b in re.findall(r'<<\s*"DIM",\s*<<([\d,\s]+)>>,\s*<<([\d,\s]+)>>\s*>>', r["out"], re.S):
            dims.add("DIM %s %s" % (" ".join(re.findall(r"\d+", a)), " ".join(re.findall(r"\d+", b))))
        if len(dims) < 200:
            raise Broken("DimensionModel produced too few dimension pairs (%d)" % len(dims))
        path = os.path.join(work, "dims.txt")
        with open(path, "w") as f:
            f.write("\n".join(sorted(dims)) + "\n")
        tiers = ["pinned", "simd"] if tier == "quick" else ["pinned", "debug", "simd"]   # simd: the F16C half-float path
        traces, cmds = [], []
        for t in tiers:
            drv = vlib.build_driver("drv_dimension", t, DIM_LIB, extra_flags=["-std=gnu11"])
            for s_ in range(vlib.NCPU):
                out = os.path.join(work, "dim-%s-%02d.ndjson" % (t, s_))
                traces.append(out)
                cmds.append([drv, path, str(s_), str(vlib.NCPU), out])
        seeds = [vlib.SEED] if tier == "quick" else [vlib.SEED + k for k in range(6)]
        alltr = []
        for sd in seeds:
            cmds2 = []
            for c in cmds:
                c2 = list(c)
                c2[-1] = c2[-1].replace(".ndjson", "-s%d.ndjson" % sd)
                alltr.append(c2[-1])
                cmds2.append(c2)
            vlib.run_many(cmds2, env={"VERIF_SEED": sd})
        traces = alltr
        events, rejects, _ = vlib.validate(traces, "DimensionTrace.tla", "DimensionTrace.cfg", xmx="3g")

        def mut(ev):
            if ev.get("e") != "DimHdr" or ev["wc"] < 2:
                return None
            ev = dict(ev)
            ev["wc"] = ev["wc"] - 1
            return ev
        neg = vlib.negative_control(traces[0], "DimensionTrace.tla", "DimensionTrace.cfg", mut)
        classes, samples = vlib.classes_of(
            traces, lambda ev: (ev["e"], ev.get("kind"), ev.get("w"), ev.get("op"),
                                sum(1 for b in ev.get("rows", []) if b), sum(1 for b in ev.get("cols", []) if b)))
        histories = sum(1 for t in traces for ln in open(t) if ln.startswith('{"e":"DimNew"'))
        rule = ("dimension pairs: the %d (rows, cols) pairs at the byte-width boundaries 256^(k-1), 256^k-1 and rows=0 "
                "enumerated by TLC (all 72 width combinations): header round trip, width macros, header length, "
                "packed form; cell writes at {row 0, 1, last} x {col 0, last} for bits and 1/3/8-byte entries wherever "
                "the cell address is below 2^40, inside a PROT_NONE reservation with only the header page and the "
                "cell's page accessible; %d write sequences of 14 steps on small fully allocated matrices of every "
                "entry kind (bit, unsigned 1..8, float, double%s) with cross-cell re-reads carried as trace-spec "
                "state; class = (event, kind, width, op, row width, col width)"
                % (len(dims), histories, ", half-float" if "simd" in tiers else "; half-float needs -mf16c: thorough tier"))
        return vlib.finish("C10", tier, t0, model, events, len(traces), rejects, samples, classes, rule,
                           ["cells whose address is at or above 2^40 (column widths 7-8 with row >= 1) are not "
                            "accessed; their header and width decoding is still checked",
                            "half-float values are restricted to exactly representable ones"],
                           extra={"negative_control": neg, "tiers": tiers, "write_sequences": histories,
                                  "unbounded_lemmas_apalache": lemmas})
    finally:
        shutil.rmtree(work, ignore_errors=True)


def prebuild():
    vlib.build_driver("drv_dimension", "pinned", DIM_LIB, extra_flags=["-std=gnu11"])
    vlib.build_driver("drv_dimension", "simd", DIM_LIB, extra_flags=["-std=gnu11"])
    vlib.build_driver("drv_packed", "pinned", [], extra_flags=["-std=gnu11"], extra_src=["pk_gen.c"])
    vlib.build_driver("drv_bitstream", "pinned", [], extra_flags=["-std=gnu11"], extra_src=BS_SRC)


def run(pid, tier):
    if pid == "C11":
        return run_c11(tier)
    if pid == "C09":
        return run_c09(tier)
    if pid == "C10":
        return run_c10(tier)
    raise Broken("unknown property " + pid)
