#!/usr/bin/env python3
"""Which lines of the library do the conformance drivers execute?

  VERIF_COV=1 ./check <id> quick   (for every id)    builds the gcc tiers with --coverage and leaves .gcda files
  tools/covaudit.py                                   merges them with gcov and writes coverage/lines.md

A coverage fact, not a check: unexecuted library code is where a change hides from every driver."""
import collections
import glob
import os
import re
import subprocess
import sys
import tempfile

ROOT = os.path.dirname(os.path.dirname(os.path.abspath(__file__)))
sys.path.insert(0, os.path.join(ROOT, "tools"))
import vlib  # noqa: E402


def main():
    gcdas = glob.glob(os.path.join(vlib.BUILD, "obj", "*", "*-cov", "*.gcda"))
    if not gcdas:
        print("no .gcda files: run the checks with VERIF_COV=1 first")
        return 1
    hit = collections.defaultdict(dict)       # file -> line -> executed?
    text = {}
    with tempfile.TemporaryDirectory() as d:
        for g in gcdas:
            r = subprocess.run(["gcov", "-o", os.path.dirname(g), g], cwd=d, capture_output=True, text=True)
            for f in glob.glob(os.path.join(d, "*.gcov")):
                src = None
                for ln in open(f, errors="ignore"):
                    m = re.match(r"\s*([-#=\d*]+):\s*(\d+):(.*)", ln)
                    if not m:
                        continue
                    cnt, no, body = m.group(1), int(m.group(2)), m.group(3)
                    if no == 0:
                        if body.startswith("Source:"):
                            src = os.path.basename(body[7:].strip())
                        continue
                    if src is None or not src.startswith("varint"):
                        continue
                    if cnt == "-":
                        continue
                    ex = not cnt.startswith("#") and not cnt.startswith("=")
                    hit[src][no] = hit[src].get(no, False) or ex
                    text[(src, no)] = body
                os.remove(f)
    os.makedirs(os.path.join(ROOT, "coverage"), exist_ok=True)
    out = os.path.join(ROOT, "coverage", "lines.md")
    tot = totx = 0
    with open(out, "w") as f:
        f.write("# Library lines executed by the conformance drivers (quick tier, gcc builds)\n\n"
                "| file | executable lines | executed | not executed |\n|---|---|---|---|\n")
        rows = []
        for src in sorted(hit):
            if "Test" in src:
                continue
            n = len(hit[src]); x = sum(1 for v in hit[src].values() if v)
            tot += n; totx += x
            rows.append((src, n, x))
            f.write("| `%s` | %d | %d | %d |\n" % (src, n, x, n - x))
        f.write("| **total** | %d | %d | %d |\n\n## Not executed\n\n" % (tot, totx, tot - totx))
        for src, n, x in rows:
            miss = sorted(no for no, v in hit[src].items() if not v)
            if not miss:
                continue
            f.write("### %s\n\n```\n" % src)
            for no in miss:
                f.write("%5d: %s\n" % (no, text[(src, no)][:110]))
            f.write("```\n\n")
    print("%d of %d executable library lines executed (%.1f%%); details in %s" % (totx, tot, 100.0 * totx / tot, out))
    return 0


if __name__ == "__main__":
    sys.exit(main())
