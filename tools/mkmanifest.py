#!/usr/bin/env python3
"""Regenerates MANIFEST.json from the table below (single source of truth)."""
import json
import os

ROOT = os.path.dirname(os.path.dirname(os.path.abspath(__file__)))

COMMON_NOTE = ("A driver process that dies outside an observed call ends its trace with a Died event, which no trace specification accepts (reported as a violation of the property being checked). Trusted base: TLC 1.8 evaluating the TLA+ modules under spec/; gcc/clang building $VERIF_REPO/src "
               "(default /repo) from the current working tree; the C drivers under harness/ record arguments, "
               "results and observed memory faithfully (they do not judge). A universally quantified input space "
               "is covered exhaustively only on the spec-generated boundary/scenario classes; elsewhere by seeded "
               "sampling. x86-64 little-endian host.")

CHECKS = {
    "C01": dict(
        text="TLC model-checks the scalar formats (round trip, agreeing bounded lengths, first byte announces length, "
             "fixed widths, bounded reader) on a boundary domain generated from the specification's own threshold "
             "tables, and then validates, event by event, a trace of every put/get/len entry point (functions, "
             "macros, fixed-width, reversed, 32-bit forms; three build tiers) of the real code on that domain plus "
             "seeded values against the same operators: decoded value, four lengths, range, and the exact write "
             "footprint in a patterned window; signed 24/40/48/56-bit helpers likewise."
             " The boundary domain also contains every integer constant found in the sources of the tree under test (and its neighbours); the 128-bit external fixed-width API and the out-of-line 32-bit readers are exercised as well."
             " Keys stepped in place by +-1..256 and 2^k steps are decoded again through every reader."
             " Every encoder / decoder macro is also invoked with expressions as arguments (hi | lo with alternating-bit operands, base + 0, w | 0); the check gains a simd tier as soon as a scalar source tests an instruction-set macro."
             " TaggedMath.tla: Apalache proves decode(encode(v)) = v, 'first byte announces the length' and the zig-zag bijection for ALL 2^64 values (a wrong variant must be refuted); ScalarModel!KeyBridge ties that arithmetic form to the byte-level definitions.",
        ref="DESIGN.md 4/C01", technique="TLA+ spec (ScalarBytes/ScalarModel) checked by TLC + TLC trace validation of the C API (ScalarTrace) + Apalache lemmas over the unbounded 64-bit domain"),
    "C04": dict(
        text="The documented wire formats are transcribed into TLA+ from comments/README (never from function bodies); "
             "TLC checks canonicity, shortest-length and monotonicity on the boundary domain and documented maxima, "
             "and trace validation compares every byte the real encoders produce (all families, fixed/reversed forms, "
             "Elias gamma/delta bit strings, zig-zag) with the reference encoder: an oracle that is not the library."
             " Mined source constants join the domain (a threshold introduced by a change is exercised on both sides)."
             " The bytes left behind by every in-place add (tagged and external, grow and no-grow) are compared with the reference encoding of the sum (a side run of the add driver judged for this property)."
             " TaggedMath.tla (Apalache): length monotonicity and round trip of the tagged format for all 2^64 values.",
        ref="DESIGN.md 4/C04", technique="TLA+ reference encoders checked by TLC + byte-exact TLC trace validation + Apalache lemmas over the unbounded 64-bit domain"),
    "C05": dict(
        text="TLC checks memcmp-order, equality and prefix-freeness of the tagged format on all adjacent pairs of the "
             "sorted boundary domain (order on the domain follows by transitivity); trace validation checks the sign "
             "of the C library's memcmp over keys the real encoder produced for boundary pairs, one-byte-different "
             "pairs, random pairs and tuples of 1..3 values."
             " Keys are also produced through the 32-bit and fixed-width writers and by in-place adds (large steps and counter-style +-1..256 steps): a stored varint must be THE encoding of its value however it got there. Keys are built at every alignment 0..7 of their first byte."
             " TaggedMath.tla: Apalache proves that the memcmp key is strictly increasing over ALL pairs of 64-bit values (hence also injective), not only on the boundary domain.",
        ref="DESIGN.md 4/C05", technique="TLA+ order lemmas checked by TLC + TLC trace validation of memcmp over real keys + Apalache lemmas over the unbounded 64-bit domain"),
    "C07": dict(
        text="FloatCodec.tla states the contract on IEEE-754 bit patterns in exact integer arithmetic (specials and FULL "
             "bit-exact; reduced precision |dec-x| <= |x|*2^-mb or infinity when x rounds above DBL_MAX; auto selection "
             "bound <= requested). FloatModel.tla writes the documented algorithm over a toy binary format and TLC "
             "checks the contract for every toy value and width (the carry-dropping shape is the negative control) and "
             "prints the value classes; the real codec is run on every class alone and in mixed arrays in all "
             "precision x exponent-mode pairs, on arrays with exponent spread > 255 and on requested errors around "
             "each mode bound; FloatTrace.tla judges every element."
             " FloatModel.tla also models the array level of COMMON_EXPONENT mode (offset width, fallback decided on the stored exponents); exponent-span classes around 255, exactK mantissa classes and arrays homogeneous in what their values need feed the automatic precision selection."
             " FloatMath.tla: Apalache proves the contract for the documented algorithm on the real binary64 format, every normal double x {4, 10, 23} kept bits.",
        ref="DESIGN.md 4/C07", technique="TLA+ contract + toy-format algorithm model checked exhaustively by TLC + TLC trace validation on binary64 bit patterns + Apalache lemmas over the unbounded 64-bit domain"),
    "C08": dict(
        text="BitmapModel.tla checks exhaustively (universe 0..7, threshold 3) that the three-container design with "
             "conversions and incremental cardinality refines a mathematical set under every history (the pre-fix "
             "AddRange behaviour is a named switch that must yield a counterexample). BitmapWalks.tla enumerates all "
             "histories of length 3 over an alphabet placed around 4095/4096/4097, long ranges and the universe edges; "
             "each is executed on the real object and BitmapTrace.tla carries the abstract set as state and compares "
             "return value, cardinality, emptiness, array export, iteration (order/duplicates), membership probes and "
             "operand immutability after every step; seeded 40-step histories cross 4096 repeatedly."
             " A second family (algebra walks) pairs 14 left-operand constructions with every binary operation and 12 right operands of every container kind (array, bitmap, run), both argument orders; Optimize and the statistics' cardinality are observed too."
             " Further families: range walks (pairs of AddRange/RemoveRange around container and universe edges), list walks (AddMany/from-array constructions with duplicates and unsorted input), and the neutral operations Clone, serialise/deserialise, Optimize and export-as-runs, each of which must leave the abstract set unchanged."
             " The serialised form of every Codec step is compared with the documented container layouts (conformance note). State walks: seven object states only a sequence reaches (cleared / thinned dense container, emptied array, touched run container, deserialised empty set) x neutral operation x edge mutator.",
        ref="DESIGN.md 4/C08", technique="TLA+ refinement model (TLC exhaustive) + TLC-enumerated histories replayed on the code + stateful TLC trace validation"),
    "C09": dict(
        text="Packed.tla states the layout as a flat LSB-first bit string; PackedModel.tla enumerates the admissible "
             "<bit width 1..32, slot type> configurations (an element never spans more than two slots) from which the "
             "driver's instantiations of varintPacked.h are generated, and explores the sorted layer as a state machine "
             "(all operation sequences to depth 4/5 keep a sorted multiset). Every element position of a full slot "
             "period is written/incremented/halved in an isolation layout (all other bits compared) and a tight layout "
             "(guard page: only the element's slots may be touched); the sorted-layer sequences are replayed on the "
             "real arrays and judged on the decoded element sequence with the length carried as trace-spec state."
             " Sorted walks are replayed under order-preserving embeddings (identity, across the top bit, flush against the maximum) in guard-page mappings; element indices around bit offsets 2^31, 2^32, 2^33 are exercised in a sparse 1 GiB array."
             " 106 configurations incl. declared maximum lengths 255/256/257 filled to the limit (fill walks), and the byte-count ('Bytes') entry points of every variant; instantiations with nothing / only the width requested (the header's defaults); every other Set is verified by a read made in the same function as the write.",
        ref="DESIGN.md 4/C09", technique="TLA+ bit-string contract + TLC-enumerated configurations and operation sequences + TLC trace validation of memory images"),
    "C10": dict(
        text="Dimension.tla states the packed form, the width-pair byte, the header layout and the cell address; "
             "DimensionModel.tla checks the formats on the specification for all (rows, cols) pairs at the byte-width "
             "boundaries (all 72 width combinations) and emits them; the driver encodes every pair (header bytes, width "
             "macros, announced length, pack/unpack) and writes cells at the matrix corners inside a PROT_NONE "
             "reservation where only the header page and the expected cell's page are accessible; small matrices of "
             "every entry kind get 14-step write sequences. DimensionTrace.tla requires every changed byte to lie in "
             "the addressed cell, checks cell bytes, read-back, bit clear/toggle semantics, and carries the matrix "
             "content as state to check re-reads of earlier cells."
             " DimensionMath.tla: Apalache proves pair packing (minimal level, fits 64 bits, unpack(pack) = id, refusal exactly from 2^32) for every pair. Matrices also arrive as images copied over the previous matrix (same address and size, another shape).",
        ref="DESIGN.md 4/C10", technique="TLA+ format/address spec checked by TLC + TLC-enumerated dimension pairs + stateful TLC trace validation with sparse guard mappings + Apalache lemmas over the unbounded 64-bit domain"),
    "C11": dict(
        text="BitstreamModel.tla checks the documented high/low split algorithm against the flat MSB-first bit-string "
             "contract exhaustively for 4-bit words (all contents of 3 words, offsets, widths, values; a wrong-mask "
             "switch is the negative control). The real header is instantiated for uint64_t and the documented "
             "uint32_t/uint16_t/uint8_t word types and every (offset mod word, width) pair x value/prior classes is "
             "run in an isolation layout (every other bit compared) and a tight layout (guard page behind the "
             "overlapping words); BitstreamTrace.tla judges each image; signed helpers for widths 2..64."
             " Bit offsets around 2^31 and 2^32 are exercised in a sparse 512 MiB stream. Every case is repeated as read - write - read inside one function (inline functions visible to the optimiser).",
        ref="DESIGN.md 4/C11", technique="TLA+ algorithm model checked exhaustively by TLC + TLC trace validation of memory images"),
    "C12": dict(
        text="AddModel.tla is the in-place-add state machine over slot memory; TLC explores all add histories to depth "
             "2 (quick) / 3 (thorough) from every documented length boundary, checks width/isolation invariants, and "
             "every explored edge is replayed on varintTagged/ExternalAdd{Grow,NoGrow}; the trace spec carries the "
             "slot state across seeded walks and checks sum, returned width, overflow report and that no byte beyond "
             "the allowed footprint changes. Tagged slots wider than their value needs (written by the fixed-width writer) are stepped as well.",
        ref="DESIGN.md 4/C12", technique="TLA+ state machine (AddModel) explored by TLC, edges replayed on the code, TLC trace validation"),
    "C02": dict(
        text="The array codecs are specified as a register (StoreTrace.tla): Encode stores a sequence, every reader "
             "(full decode, random access, block access) is a function of it. TLC enumerates the scenario space "
             "(Scenarios.tla: codec x parameter x length class straddling 127/128/129, 240/241, 2287/2288, "
             "4095/4096/4097, 65535/65536 x value shape straddling byte/bit widths incl. marker coincidence, 9-byte "
             "values, 64-bit blocks); the driver runs the real encoders/decoders on every leaf with the decoder reading "
             "an exact-size guard-page copy of exactly the bytes the encoder reported, and TLC validates every event "
             "(decoded sequence = input, bytes consumed, random access = full decode)."
             " The scenario space includes progressions whose minimum/range sits on every tagged length class and on every mined source constant, zero-width 128-blocks, the marker coincidence at every position; every scenario also runs through the encoders' meta == NULL path, with output structs primed by a decoy encode, in the default, unoptimised and AVX2/AVX-512 (simd) builds; single-block BP128 codecs, RLE run iteration and dictionary Find/Lookup are bound as block / random-access readers. Wire.tla compares the bytes of FOR/PFOR/RLE/delta/group/dict/Elias-array/BP128 encodings and the adaptive envelope (unclaimed conformance fact). Run lengths sit on the tagged length classes (2286/2287/2288; 67823/67824 thorough); every scenario of up to 300 values is followed by a refill of the same buffers (same count, first and last element; interior swapped / duplicated) encoded and decoded again.",
        ref="DESIGN.md 4/C02", technique="TLA+ register spec + TLC-enumerated scenarios + TLC trace validation with guard-page buffers"),
    "C03": dict(
        text="Each Encode event carries the value the real sizing function returned for that input and the bytes "
             "written; the trace spec requires written <= advertised (= for predictors documented as exact), and a "
             "second encode into a destination of exactly the advertised size ending at a PROT_NONE page must not "
             "fault. Scenarios are the worst cases of each bound, enumerated by TLC (9-byte values, 64-bit blocks, "
             "outliers at the end, all-unique, sampler-misleading periodic data, every forced adaptive encoding)."
             " Runs in the default and the simd build."
             " The float codec's size bound and exact-size destination are judged here as a side run of the float driver (FloatTrace.tla tags those conjuncts with this property), including encode faults; alternating-width shapes and minimum-on-class-boundary shapes feed the tagged-field codecs."
             " Allocation failures: every allocating encoder (dictionary, PFOR, float, adaptive automatic and forced) writes into exactly the advertised size while each of its allocations fails in turn (side run of the fault-injection driver; AllocTrace.tla tags these conjuncts with this property).",
        ref="DESIGN.md 4/C03", technique="TLA+ size contract in the trace spec + TLC-enumerated worst-case scenarios + guard-page destinations"),
    "C06": dict(
        text="Adaptive encode/decode is held to the same register contract as the plain codecs, with the selector left "
             "nondeterministic (any encoding may be chosen; the first byte must name it and equal the reported type); "
             "TLC enumerates scenario leaves aimed at every branch of the documented decision tree (orders, duplicate "
             "patterns, bitmap range, outlier ratios around 5%, exact vs sampled uniqueness around 10000) and every "
             "forced encoding on its documented domain."
             " Selector.tla specifies the analysis and the decision tree as exact functions and proves (ASSUME) that some 60 deterministic recipes (exact number in the evidence file) land on, just below and just above every threshold of the tree, reaching all 8 leaves; the recipes run automatically selected and forced. Encodings larger than 2^20 bytes are part of the scenario space."
             " Every scenario of up to 300 values is followed by a refill of the same buffers (history-dependent selection). Half-step progressions (steps of 2^62/2^63) feed the delta paths; duplicates beyond the 10000-element sampling window (n = 10010, 20001) are threshold recipes.",
        ref="DESIGN.md 4/C06", technique="TLA+ register spec with nondeterministic selector + TLC-enumerated decision-tree scenarios + trace validation"),
    "C13": dict(
        text="For every capacity-taking decoder the driver decodes valid encodings into an output array of exactly "
             "`capacity` elements ending at a PROT_NONE page, for capacities 0, 1, n/2, n-1 and block boundaries; the "
             "library's own heap blocks are end-fenced too (allocator shim) so internal scratch overruns fault. The "
             "trace spec accepts only: no fault, and result 0 or a correct prefix of at most `capacity` elements."
             " Short arrays get every capacity 0..n."
             " Capacity = element count is run for every reader; the recorded fault address tells an output overrun (this property) from an input over-read (C02).",
        ref="DESIGN.md 4/C13", technique="TLA+ capacity contract + TLC-enumerated scenarios + trace validation with guard pages and fenced heap"),
    "C14": dict(
        text="HostileGen.tla builds hostile inputs from the documented wire layouts (every truncation point of valid "
             "encodings, header fields forced to 0 and huge values, counts beyond the payload, out-of-range indices, "
             "never-ending unary prefixes, bitmap containers with inconsistent cardinalities); with all 256x12 cases "
             "of the bounded tagged reader and seeded random strings they are decoded by the real entry points inside "
             "exact-size guard-page buffers with a fenced, request-recording allocator and a per-call alarm. "
             "HostileTrace.tla accepts only: no access at/after the declared size, termination, bounded allocation, "
             "result <= capacity; the bounded tagged reader must equal TaggedGetBounded exactly. Capacities 0 and 1 are among the cases; the vectorised builds (simd tier) run too.",
        ref="DESIGN.md 4/C14", technique="TLA+-generated hostile inputs + TLC trace validation of a safety contract with guard pages / fenced allocator"),
    "C16": dict(
        text="Every metadata field an encoder reports and every header accessor result is compared by TLC with ground "
             "truth computed in TLA+ from the input values (count, min, max, range, offset width, run count, sum of "
             "Elias code lengths, block count, last-block size) or from the stream header (PFOR width byte, adaptive "
             "type byte, bytes written)."
             " Analysis entry points (FOR/RLE analyse, ComputeWidth, BP128 MaxBitWidth) and per-field group widths are compared as well; default and simd builds."
             " The reported element count must equal the number of elements a decode of the produced bytes yields (decode-once conjunct); the float decoder's consumed-byte report is judged by a side run of the float driver.",
        ref="DESIGN.md 4/C16", technique="TLA+ ground-truth functions (Limbs/StoreTrace) + trace validation of reported metadata"),
    "C15": dict(
        text="Purity.tla models the hidden context (stack residue, heap residue, previous call) and enumerates every "
             "schedule of perturbations up to depth 2/3 (a callee that reads residue is the negative control); the "
             "driver realises each schedule (96 KiB stack painting incl. the call's own element count replicated, heap "
             "bin seeding with M_PERTURB, previous calls of the same/another API and count) before each of ~90 "
             "representative calls, in two processes and in the optimised and unoptimised tiers; PurityTrace.tla keeps "
             "a memo of the first result per call class and rejects any later execution whose bytes, length or decoded "
             "values differ; thorough adds valgrind memcheck (Uninit events)."
             " Every reader (bulk, random access, block) of the produced bytes runs under the schedule's paints as well; previous-call kinds include a call on the SAME input buffer with other contents; heap residue reaches the library unmasked (real allocator, blocks of the sizes the call will request, allocation fills via M_PERTURB); call classes cover short, long and every byte-width class of inputs and the float codec."
             " Each encoder call class also runs with meta == NULL (a second memo class): the optional output struct must not be a hidden input."
             " Twelve set-object histories (one per container conversion, set algebra, re-decoded objects, bulk add, optimise) are call classes too: serialisation and exported members must not depend on heap residue or earlier histories."
             " The four scalar families (every put/get entry point on the ScalarGen.tla boundary domain) are call classes as well, the destination window's previous content varying with the schedule.",
        ref="DESIGN.md 4/C15", technique="TLA+ context model + TLC-enumerated perturbation schedules + stateful (memo) TLC trace validation"),
    "C17": dict(
        text="Threads.tla checks over all interleavings of Begin/End steps of 3 threads that with per-call scratch every "
             "call returns F(args) (a shared scratch buffer is the negative control). 16 real threads run 15 call "
             "classes on shared read-only inputs and private outputs in barrier-released bursts; every thread's log "
             "(own sequence numbers, no cross-thread ordering assumed) is validated against the sequential results by "
             "ThreadsTrace.tla; the same driver under ThreadSanitizer turns any race report into a Race event, which "
             "is not an action of the specification."
             " Every codec's first call in the process is made by all threads at once behind a spin barrier (cold start; 24/200 extra processes), the sequential reference is computed after the threads; the threads' packed arrays and bitstreams lie back to back in one slab."
             " Reader threads decode shared encodings while writers encode into private buffers; shared bitmap objects are queried concurrently; a driver crash or hang under concurrency is re-run single-threaded and, if it then completes, becomes a Crash event (not an action of the specification)."
             " Scalar varints of every width lie back to back across the threads' regions and are rewritten / stepped in place (tagged and external, no-grow) by their owners."
             " Shared read-only objects (pre-analysed FOR descriptor, built dictionary, parsed PFOR header) are built once and then only passed to the library by all threads. A -std=gnu99 build (C11-only qualifiers vanish) and a short-input call class (12 and 100 values) run as well.",
        ref="DESIGN.md 4/C17", technique="TLA+ interleaving model (TLC) + per-thread TLC trace validation + ThreadSanitizer reports as trace events"),
    "C18": dict(
        text="AllocModel.tla explores object lifetimes with a fault at every allocation step of every call and checks "
             "no-leak/consistency on the recovery discipline (dropping the release step is the negative control). The "
             "allocator shim counts the allocations A of each real call and repeats it with allocation k = 1..A failing, "
             "for 26 codec entry points x 5 inputs and 23 bitmap scenarios; AllocTrace.tla accepts only: no crash, no "
             "leak, and either the documented failure indication with pre-existing objects unchanged or a fully correct "
             "result (codec output must decode to the input; the bitmap must equal the abstract set, which the spec "
             "carries as state through the follow-up operations)."
             " The adaptive entry points are additionally fault-injected on every threshold recipe of Selector.tla (a failed allocation replaces statistics by estimates) and the bitmap scenarios straddle every conversion threshold in both directions; Optimize, serialise and clone run in states where they have work to do.",
        ref="DESIGN.md 4/C18", technique="TLA+ lifetime model (TLC) + exhaustive single-fault enumeration per call via allocator shim + stateful TLC trace validation"),
}


def main():
    checks = []
    for pid in sorted(CHECKS):
        c = CHECKS[pid]
        checks.append({
            "property_id": pid,
            "quick_cmd": "./check %s quick" % pid,
            "thorough_cmd": "./check %s thorough" % pid,
            "evidence_file": "evidence/%s.json" % pid,
            "replay_cmd_template": "./check %s --replay {path}" % pid,
            "engine": "tlc-trace-validation",
            "level_claimed": {"category": "model_checking", "text": c["text"], "design_ref": c["ref"]},
            "level_note": COMMON_NOTE,
            "technique": c["technique"],
        })
    with open(os.path.join(ROOT, "properties.jsonl")) as f:
        allp = [json.loads(l)["id"] for l in f if l.strip()]
    na = [{"property_id": p, "reason": "check not built yet in this revision (in progress; see DESIGN.md section 4)"}
          for p in allp if p not in CHECKS]
    m = {
        "version": 1,
        "setup_cmd": "./setup.sh",
        "hooks": {
            "guard": "MATTSTA_VARINT_VERIF",
            "enable": "drivers are compiled with -DMATTSTA_VARINT_VERIF together with /repo/src/*.c "
                      "(tools/vlib.py build_driver); no source hook is needed for the claimed properties",
            "baseline_off_cmd": "./tools/baseline_off.sh",
            "source_commits": [],
            "add_only": True,
        },
        "engines": [{
            "name": "tlc-trace-validation", "path": "check",
            "serves_properties": sorted(CHECKS),
            "kind_free_text": "TLA+ specifications under spec/ checked by TLC (exhaustive-small models + scenario "
                              "generation) and bound to the C code by trace validation of NDJSON event logs written "
                              "by harness/drv_*.c",
        }],
        "checks": checks,
        "not_applicable": na,
        "notes": "See DESIGN.md. known_findings.json lists genuine defects recorded or fixed.",
    }
    with open(os.path.join(ROOT, "MANIFEST.json"), "w") as f:
        json.dump(m, f, indent=1)
        f.write("\n")


if __name__ == "__main__":
    main()
