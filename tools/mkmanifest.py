#!/usr/bin/env python3
"""Regenerates MANIFEST.json from the table below (single source of truth)."""
import json
import os

ROOT = os.path.dirname(os.path.dirname(os.path.abspath(__file__)))

COMMON_NOTE = ("Trusted base: TLC 1.8 evaluating the TLA+ modules under spec/; gcc/clang building $VERIF_REPO/src "
               "(default /repo) from the current working tree; the C drivers under harness/ record arguments, "
               "results and observed memory faithfully (they do not judge). A universally quantified input space "
               "is covered exhaustively only on the spec-generated boundary/scenario classes; elsewhere by seeded "
               "sampling. x86-64 little-endian host.")

CHECKS = {
    "C01": dict(
        text="TLC model-checks the scalar formats (round trip, agreeing bounded lengths, first byte announces length, "
             "fixed widths, bounded reader) on a boundary domain generated from the specification's own threshold "
             "tables, and then validates, event by event, a trace of every put/get/len entry point (functions, "
             "macros, fixed-width, reversed, 32-bit forms; three build tiers) of the real code on that domain plus "
             "seeded values against the same operators: decoded value, four lengths, range, and the exact write "
             "footprint in a patterned window; signed 24/40/48/56-bit helpers likewise.",
        ref="DESIGN.md 4/C01", technique="TLA+ spec (ScalarBytes/ScalarModel) checked by TLC + TLC trace validation of the C API (ScalarTrace)"),
    "C04": dict(
        text="The documented wire formats are transcribed into TLA+ from comments/README (never from function bodies); "
             "TLC checks canonicity, shortest-length and monotonicity on the boundary domain and documented maxima, "
             "and trace validation compares every byte the real encoders produce (all families, fixed/reversed forms, "
             "Elias gamma/delta bit strings, zig-zag) with the reference encoder: an oracle that is not the library.",
        ref="DESIGN.md 4/C04", technique="TLA+ reference encoders checked by TLC + byte-exact TLC trace validation"),
    "C05": dict(
        text="TLC checks memcmp-order, equality and prefix-freeness of the tagged format on all adjacent pairs of the "
             "sorted boundary domain (order on the domain follows by transitivity); trace validation checks the sign "
             "of the C library's memcmp over keys the real encoder produced for boundary pairs, one-byte-different "
             "pairs, random pairs and tuples of 1..3 values.",
        ref="DESIGN.md 4/C05", technique="TLA+ order lemmas checked by TLC + TLC trace validation of memcmp over real keys"),
    "C12": dict(
        text="AddModel.tla is the in-place-add state machine over slot memory; TLC explores all add histories to depth "
             "2 (quick) / 3 (thorough) from every documented length boundary, checks width/isolation invariants, and "
             "every explored edge is replayed on varintTagged/ExternalAdd{Grow,NoGrow}; the trace spec carries the "
             "slot state across seeded walks and checks sum, returned width, overflow report and that no byte beyond "
             "the allowed footprint changes.",
        ref="DESIGN.md 4/C12", technique="TLA+ state machine (AddModel) explored by TLC, edges replayed on the code, TLC trace validation"),
}


def main():
    checks = []
    for pid in sorted(CHECKS):
        c = CHECKS[pid]
        checks.append({
            "property_id": pid,
            "quick_cmd": "./check %s quick" % pid,
            "thorough_cmd": "./check %s thorough" % pid,
            "evidence_file": "evidence/%s.json" % pid,
            "replay_cmd_template": "./check %s --replay {path}" % pid,
            "engine": "tlc-trace-validation",
            "level_claimed": {"category": "model_checking", "text": c["text"], "design_ref": c["ref"]},
            "level_note": COMMON_NOTE,
            "technique": c["technique"],
        })
    with open(os.path.join(ROOT, "properties.jsonl")) as f:
        allp = [json.loads(l)["id"] for l in f if l.strip()]
    na = [{"property_id": p, "reason": "check not built yet in this revision (in progress; see DESIGN.md section 4)"}
          for p in allp if p not in CHECKS]
    m = {
        "version": 1,
        "setup_cmd": "./setup.sh",
        "hooks": {
            "guard": "MATTSTA_VARINT_VERIF",
            "enable": "drivers are compiled with -DMATTSTA_VARINT_VERIF together with /repo/src/*.c "
                      "(tools/vlib.py build_driver); no source hook is needed for the claimed properties",
            "baseline_off_cmd": "./tools/baseline_off.sh",
            "source_commits": [],
            "add_only": True,
        },
        "engines": [{
            "name": "tlc-trace-validation", "path": "check",
            "serves_properties": sorted(CHECKS),
            "kind_free_text": "TLA+ specifications under spec/ checked by TLC (exhaustive-small models + scenario "
                              "generation) and bound to the C code by trace validation of NDJSON event logs written "
                              "by harness/drv_*.c",
        }],
        "checks": checks,
        "not_applicable": na,
        "notes": "See DESIGN.md. known_findings.json lists genuine defects recorded or fixed.",
    }
    with open(os.path.join(ROOT, "MANIFEST.json"), "w") as f:
        json.dump(m, f, indent=1)
        f.write("\n")


if __name__ == "__main__":
    main()
