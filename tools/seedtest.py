#!/usr/bin/env python3
"""Run checks against a seeded breaking change.

  tools/seedtest.py <seeded-dir> [--props C01,C04] [--tier quick] [--all] [--copy]

--copy: apply the change to a scratch copy of /repo (under /var/tmp, removed afterwards) and run the checks
with VERIF_REPO pointing at it, so that several changes can be tried side by side and /repo is not touched.

Applies <seeded-dir>/patch.diff to /repo (git apply), runs ./check for the target property
(meta.json "property"; --props overrides; --all = every property), prints which checks raised a
VIOLATION, and restores /repo (git checkout -- .) and the committed evidence files.
Never commits anything in /repo."""
import json
import os
import shutil
import subprocess
import sys
import tempfile
import time

ROOT = os.path.dirname(os.path.dirname(os.path.abspath(__file__)))
REPO = "/repo"
ALL = ["C%02d" % i for i in range(1, 19)]


def sh(*a, **k):
    return subprocess.run(a, capture_output=True, text=True, **k)


def run_on_copy(d, props, tier):
    scratch = tempfile.mkdtemp(prefix="seedcopy-", dir="/var/tmp")
    results = {}
    try:
        repo = os.path.join(scratch, "repo")
        os.makedirs(repo)
        sh("rsync", "-a", "--exclude", "_build", "--exclude", ".git", REPO + "/", repo + "/")
        r = subprocess.run(["patch", "-p1", "-s", "-d", repo, "-i", os.path.join(d, "patch.diff")],
                           capture_output=True, text=True)
        if r.returncode:
            print("patch does not apply:", r.stdout, r.stderr)
            return 2
        evid = os.path.join(scratch, "evidence")
        env = dict(os.environ, VERIF_REPO=repo, VERIF_KEEP_OBJ="1", VERIF_EVIDENCE=evid)
        for p in props:
            t0 = time.time()
            r = subprocess.run([os.path.join(ROOT, "check"), p, tier], capture_output=True, text=True, cwd=ROOT,
                               timeout=3000, env=env)
            viol = [ln for ln in r.stdout.splitlines() if ln.startswith("VIOLATION")]
            results[p] = {"exit": r.returncode, "violations": len(viol), "first": viol[0][:300] if viol else "",
                          "wall_s": round(time.time() - t0, 1)}
            print("%s %s: exit=%d violations=%d %s" % (p, tier, r.returncode, len(viol),
                                                        (viol[0][:200] if viol else r.stderr.strip().splitlines()[-1:][0][:200] if r.stderr.strip() else "")))
    finally:
        shutil.rmtree(scratch, ignore_errors=True)
    out = os.path.join(d, "detected.json")
    prev = json.load(open(out)) if os.path.exists(out) else {}
    prev.setdefault(tier, {}).update(results)
    json.dump(prev, open(out, "w"), indent=1)
    return 0


def main():
    d = os.path.abspath(sys.argv[1])
    args = sys.argv[2:]
    meta = json.load(open(os.path.join(d, "meta.json")))
    props = [meta["property"]]
    tier = "quick"
    if "--props" in args:
        props = args[args.index("--props") + 1].split(",")
    if "--all" in args:
        props = ALL
    if "--tier" in args:
        tier = args[args.index("--tier") + 1]
    copy = "--copy" in args
    if copy:
        return run_on_copy(d, props, tier)
    st = sh("git", "-C", REPO, "status", "--porcelain", "--untracked-files=no").stdout.strip()
    if st:
        print("refusing: /repo has uncommitted changes:\n" + st)
        return 2
    keep = tempfile.mkdtemp(prefix="evid-")
    for f in os.listdir(os.path.join(ROOT, "evidence")):
        p = os.path.join(ROOT, "evidence", f)
        if os.path.isfile(p):
            shutil.copy(p, keep)
    r = sh("git", "-C", REPO, "apply", os.path.join(d, "patch.diff"))
    if r.returncode:
        print("patch does not apply:", r.stderr)
        return 2
    results = {}
    try:
        for p in props:
            t0 = time.time()
            r = sh(os.path.join(ROOT, "check"), p, tier, cwd=ROOT, timeout=3000)
            viol = [ln for ln in r.stdout.splitlines() if ln.startswith("VIOLATION")]
            results[p] = {"exit": r.returncode, "violations": len(viol), "first": viol[0][:300] if viol else "",
                          "wall_s": round(time.time() - t0, 1)}
            print("%s %s: exit=%d violations=%d %s" % (p, tier, r.returncode, len(viol),
                                                        (viol[0][:200] if viol else r.stderr.strip().splitlines()[-1:][0][:200] if r.stderr.strip() else "")))
    finally:
        sh("git", "-C", REPO, "checkout", "--", ".")
        for f in os.listdir(keep):
            shutil.copy(os.path.join(keep, f), os.path.join(ROOT, "evidence", f))
        shutil.rmtree(keep, ignore_errors=True)
        shutil.rmtree(os.path.join(ROOT, "evidence", "replay"), ignore_errors=True)
    out = os.path.join(d, "detected.json")
    prev = {}
    if os.path.exists(out):
        prev = json.load(open(out))
    prev.setdefault(tier, {}).update(results)
    json.dump(prev, open(out, "w"), indent=1)
    return 0


if __name__ == "__main__":
    sys.exit(main())
