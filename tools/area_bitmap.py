"""C08: the bitmap behaves as a set of 16-bit integers under any history.

E: BitmapModel.tla (three-container design refines the set; named-switch negative control)
G: BitmapWalks.tla (all histories of length <= Depth over the threshold alphabet)
V: drv_bitmap.c -> BitmapTrace.tla (abstract set carried as state; every observer after every step)
"""
import json
import os
import re
import shutil
import time

import vlib
from vlib import Broken, Model

LIB = ["varintBitmap.c", "varintExternal.c"]
BUILD = dict(extra_flags=["-std=gnu11"] + vlib.SHIM_LD, extra_src=["allocshim.c"])


def prebuild():
    vlib.build_driver("drv_bitmap", "pinned", LIB, **BUILD)


def model_small(work, model):
    cfg = os.path.join(work, "BitmapModel.cfg")
    base = ("SPECIFICATION Spec\nCONSTANTS N = 8\nT = 3\nMaxDepth = 12\nAddRangeReplaces = %s\n"
            "INVARIANTS Refines CardOK Shape\nCHECK_DEADLOCK FALSE\n")
    with open(cfg, "w") as f:
        f.write(base % "FALSE")
    r = vlib.tlc_or_broken("BitmapModel.tla", cfg, workers=vlib.NCPU, xmx="4g")
    model.add("BitmapModel[N=8,T=3]", r)
    with open(cfg, "w") as f:
        f.write(base % "TRUE")
    r = vlib.tlc("BitmapModel.tla", cfg, workers=4, xmx="2g")
    for f in os.listdir(vlib.SPEC):
        if f.startswith("BitmapModel_TTrace") or f.endswith(".bin"):
            os.unlink(os.path.join(vlib.SPEC, f))
    if "Invariant Refines is violated" not in r["out"]:
        raise Broken("BitmapModel negative control (AddRangeReplaces=TRUE) found no counterexample: model is vacuous")
    return {"ran": True, "counterexample_found": True}


def walks(work, tier, model):
    cfg = os.path.join(work, "BitmapWalks.cfg")
    depth, full = (3, "FALSE") if tier == "quick" else (3, "TRUE")
    with open(cfg, "w") as f:
        f.write("SPECIFICATION Spec\nCONSTANTS Depth = %d\nFull = %s\nINVARIANT Inv\nCHECK_DEADLOCK FALSE\n" % (depth, full))
    r = vlib.tlc_or_broken("BitmapWalks.tla", cfg, workers=vlib.NCPU, xmx="6g", timeout=1500)
    model.add("BitmapWalks[depth=%d,full=%s]" % (depth, full), r)
    out = r["out"]
    lines = []
    for name, body in re.findall(r'<<\s*"KDEF",\s*"(\w+)",\s*<<(.*?)>>\s*>>\n', out, re.S):
        lines.append("K %s %s" % (name, " ".join(re.findall(r"\d+", body))))
    for name, body in re.findall(r'<<\s*"LDEF",\s*"(\w+)",\s*<<(.*?)>>\s*>>', out, re.S):
        lines.append("L %s %s" % (name, " ".join(re.findall(r"\d+", body))))
    nw = 0
    for w in re.findall(r'<<\s*"WALK",\s*<<(.*?)>>\s*>>\s*>>', out, re.S):
        ops = re.findall(r'<<\s*"(\w+)",\s*(\d+),\s*(\d+),\s*"(\w*)"', w)
        lines.append("W " + " ;".join("%s %s %s %s" % (o, a, b, k or "-") for o, a, b, k in ops))
        nw += 1
    if nw < 1000:
        raise Broken("BitmapWalks produced too few walks (%d)" % nw)
    path = os.path.join(work, "walks.txt")
    with open(path, "w") as f:
        f.write("\n".join(lines) + "\n")
    return path, nw


def key(ev):
    if ev.get("e") != "Bm" or ev.get("dead"):
        return None
    return (ev["op"], ev["type"], ev["card"] > 4096, ev["card"] == 0, len(ev["ivs"]) > 1)


def transitions(traces):
    """container transitions actually exercised (coverage fact, not a verdict)"""
    seen = {}
    for t in traces:
        prev = None
        with open(t) as f:
            for ln in f:
                ev = json.loads(ln)
                if ev["e"] == "BmNew":
                    prev = 0
                    continue
                if ev.get("dead") or ev["op"] == "Operand":
                    continue
                cur = ev["type"]
                k = "%s:%d->%d" % (ev["op"], prev, cur)
                seen[k] = seen.get(k, 0) + 1
                prev = cur
    return seen


def run(pid, tier):
    t0 = time.time()
    work = vlib.scratch(pid)
    model = Model()
    try:
        negm = model_small(work, model)
        path, nw = walks(work, tier, model)
        nrand = 400 if tier == "quick" else 20000
        tiers = (["pinned"] if tier == "quick" else ["pinned", "debug"]) + vlib.isa_tier(LIB)
        traces, cmds = [], []
        for t in tiers:
            drv = vlib.build_driver("drv_bitmap", t, LIB, **BUILD)
            for s in range(vlib.NCPU):
                out = os.path.join(work, "bm-%s-%02d.ndjson" % (t, s))
                traces.append(out)
                cmds.append([drv, path, str(s), str(vlib.NCPU), str(nrand), out])
        vlib.run_many(cmds, timeout=1500)
        events, rejects, notes = vlib.validate(traces, "BitmapTrace.tla", "BitmapTrace.cfg", xmx="3g", timeout=1500)

        def mut(ev):
            if ev.get("e") != "Bm" or ev.get("dead") or ev["card"] < 1:
                return None
            ev = dict(ev)
            ev["card"] += 1
            return ev
        # negative control needs a preceding BmNew: build a 2-line trace
        neg = vlib.negative_control(traces[0], "BitmapTrace.tla", "BitmapTrace.cfg",
                                    lambda ev: mut(ev) if ev.get("op") in ("Add", "AddRange") else None)
        classes, samples = vlib.classes_of(traces, key)
        trans = transitions(traces)
        need = ["0->1", "1->0", "0->2", "2->0", "2->1"]
        missing = [n for n in need if not any(k.endswith(n) for k in trans)]
        if missing:
            raise Broken("container transitions never exercised: %s" % missing)
        histories = sum(1 for t in traces for ln in open(t) if ln.startswith('{"e":"BmNew"'))
        rule = ("histories: all %d walks of length 3 over the threshold alphabet enumerated by TLC (BitmapWalks.tla; "
                "history kept in the state so walks reaching the same set through different containers are not "
                "merged) plus %d seeded random histories of length 40 crossing cardinality 4096 both ways; after "
                "every step all observers are compared with the abstract set; class = (operation, container, "
                "cardinality side of 4096, empty, fragmented)" % (nw, nrand))
        return vlib.finish(pid, tier, t0, model, events, histories, rejects, samples, classes, rule,
                           ["second operands are built element-wise by the library's Add (checked against their "
                            "definition by the trace spec)",
                            "histories beyond length 3 are sampled, not enumerated"],
                           extra={"serialisation_format": {"what": "Codec steps: type byte, cardinality, total length and the first 40 bytes of "
                                                          "the serialised object compared with the documented layout of its "
                                                          "container (unclaimed conformance fact, never a violation)",
                                                          "checked": notes.get("ser-checked", 0),
                                                          "drift": {k: v for k, v in notes.items() if k.startswith("ser-drift")}},
                                  "negative_control": neg, "model_negative_control": negm, "tiers": tiers,
                                  "container_transitions": trans, "walks": nw})
    finally:
        shutil.rmtree(work, ignore_errors=True)
