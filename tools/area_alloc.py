"""C18: a failed allocation is reported, never a crash, leak or silent corruption.

E: AllocModel.tla (object lifetimes with one fault per call; leak/consistency invariants)
V: drv_alloc.c (allocator shim: count allocations A of each call, then fail k = 1..A) -> AllocTrace.tla
"""
import json
import os
import shutil
import time

import vlib
from vlib import Broken, Model
import area_mem

LIB = ["varintTagged.c", "varintExternal.c", "varintDelta.c", "varintFOR.c", "varintPFOR.c", "varintDict.c",
       "varintAdaptive.c", "varintBitmap.c", "varintFloat.c"]
BUILD = dict(extra_flags=["-std=gnu11"] + vlib.SHIM_LD, extra_src=["allocshim.c"])


def prebuild():
    vlib.build_driver("drv_alloc", "pinned", LIB, **BUILD)


def selector_recipes(work, model, tier):
    import re
    cfg2 = os.path.join(work, "SelectorAlloc.cfg")
    with open(cfg2, "w") as f:
        f.write('SPECIFICATION Spec\nCONSTANT Tier = "%s"\nINVARIANT Emit\nCHECK_DEADLOCK FALSE\n' % tier)
    r2 = vlib.tlc_or_broken("Selector.tla", cfg2, workers=4, xmx="2g")
    model.add("Selector[%s]" % tier, r2)
    sel = re.findall(r'<<\s*"SEL",\s*"[^"]+",\s*"(\w+)",\s*(\d+),\s*(-?\d+),\s*(-?\d+),\s*(-?\d+),\s*(-?\d+),', r2["out"])
    if len(sel) < 40:
        raise Broken("Selector.tla produced too few recipes (%d)" % len(sel))
    recipes = os.path.join(work, "alloc-recipes.txt")
    with open(recipes, "w") as f:
        for x in sorted(set(sel)):
            f.write("R %s %s %s %s %s %s\n" % x)
    return recipes


def side_rejects(work, model, tier):
    """The encoders of the fault-injection driver for the C03 check: every allocating encoder writes into a
    destination of exactly the advertised size (guard page behind it) while allocation k = 1..A fails;
    AllocTrace.tla owns 'written <= advertised' and 'no access beyond the destination' as C03 conjuncts.
    Returns (events, rejects, number of traces)."""
    recipes = selector_recipes(work, model, tier)
    drv = vlib.build_driver("drv_alloc", "pinned", LIB, **BUILD)
    traces, cmds = [], []
    for s in range(vlib.NCPU):
        out = os.path.join(work, "side-af-%02d.ndjson" % s)
        traces.append(out)
        cmds.append([drv, str(s), str(vlib.NCPU), out, recipes])
    vlib.run_many(cmds, env={"VERIF_ALLOC_ENC": "1"})
    events, rejects, _ = vlib.validate(traces, "AllocTrace.tla", "AllocTrace.cfg", xmx="3g")
    return events, rejects, len(traces)


def run(pid, tier):
    t0 = time.time()
    work = vlib.scratch(pid)
    model = Model()
    try:
        negm = area_mem.model_with_neg(work, model, "AllocModel", "Leaky = FALSE\nMaxObjs = 2\nDepth = 5",
                                       "Leaky = TRUE\nMaxObjs = 2\nDepth = 5", "Invariant NoLeak is violated",
                                       props="INVARIANTS NoLeak Consistent\n")
        # threshold recipes of the adaptive selection tree as fault-injection inputs
        recipes = selector_recipes(work, model, tier)
        tiers = ["pinned"] if tier == "quick" else ["pinned", "debug"]
        seeds = [vlib.SEED] if tier == "quick" else [vlib.SEED + k for k in range(4)]
        traces, cmds = [], []
        for t in tiers:
            drv = vlib.build_driver("drv_alloc", t, LIB, **BUILD)
            for sd in seeds:
                for s in range(vlib.NCPU):
                    out = os.path.join(work, "af-%s-%d-%02d.ndjson" % (t, sd, s))
                    traces.append((out, sd))
                    cmds.append(([drv, str(s), str(vlib.NCPU), out, recipes], sd))
        for sd in seeds:
            vlib.run_many([c for c, s_ in cmds if s_ == sd], env={"VERIF_SEED": sd})
        traces = [t for t, _ in traces]
        events, rejects, _ = vlib.validate(traces, "AllocTrace.tla", "AllocTrace.cfg", xmx="3g")

        def mut(ev):
            if ev.get("e") != "AF" or ev["fk"] == 0 or ev["ok"] == 1:
                return None
            ev = dict(ev)
            ev["ok"] = 1
            ev["same"] = 0     # "success" whose output does not decode to the input
            return ev
        neg = None
        for t in traces:
            try:
                neg = vlib.negative_control(t, "AllocTrace.tla", "AllocTrace.cfg", mut)
                break
            except Broken:
                continue
        if neg is None:
            raise Broken("negative control: no faulted AF event found")
        points = 0
        apis = set()
        for t in traces:
            for ln in open(t):
                ev = json.loads(ln)
                if ev.get("injected", 0) > 0:
                    points += 1
                    apis.add(ev.get("api") or ev.get("op"))
        classes, samples = vlib.classes_of(
            traces, lambda ev: (ev["e"], ev.get("api") or ev.get("op"), ev.get("scen"), ev.get("fk")))
        if points < 300:
            raise Broken("too few injected allocation failures (%d)" % points)
        rule = ("fault points: for each of 26 allocating codec entry points (dictionary create/build/encode/size/"
                "stats/decode x2, PFOR analyse/encode, float encode/decode, adaptive unique-count, adaptive "
                "encode/decode automatic and forced to each of the six encodings) on 5 inputs, and 23 bitmap "
                "scenarios (array<->bitmap conversions at 4096, array growth, run container dissolution, long/short "
                "ranges, bulk add, clone and serialise/deserialise of each container, the four set operations on "
                "small and >4096-member operands): the call's allocations are counted (A) and the call repeated with "
                "allocation k = 1..A failing; %d injected failures over %d distinct operations; bitmap objects are "
                "observed and used again after the fault; class = (event, operation, scenario, k)" % (points, len(apis)))
        return vlib.finish(pid, tier, t0, model, events, len(traces), rejects, samples, classes, rule,
                           ["single failure per call (the property's quantifier); the shim fails malloc/calloc/realloc "
                            "by ordinal", "leaks are live tracked blocks after the scenario's frees",
                            "a codec output is 'wrong' when the library's own decoder does not return the input"],
                           extra={"negative_control": neg, "model_negative_control": negm, "tiers": tiers,
                                  "fault_points": points})
    finally:
        shutil.rmtree(work, ignore_errors=True)
