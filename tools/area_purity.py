"""C15: results depend only on the arguments (no hidden state, no stale memory).

E/G: Purity.tla (all schedules of stack/heap painting and previous calls up to Depth; ReadsResidue = negative control)
V: drv_purity.c realises every schedule for every representative call, in two processes and two build tiers
   -> PurityTrace.tla (memo: one result per call class); thorough adds a memcheck run (Uninit events)
"""
import json
import os
import re
import shutil
import subprocess
import time

import vlib
from vlib import Broken, Model
import area_mem

LIB = ["varintTagged.c", "varintExternal.c", "varintDelta.c", "varintFOR.c", "varintPFOR.c", "varintGroup.c",
       "varintDict.c", "varintRLE.c", "varintElias.c", "varintBP128.c", "varintAdaptive.c", "varintBitmap.c",
       "varintFloat.c", "varintExternalBigEndian.c", "varintChained.c", "varintChainedSimple.c"]
BUILD = dict(extra_flags=["-std=gnu11"] + vlib.SHIM_LD, extra_src=["allocshim.c"])
NSH = 8


def prebuild():
    vlib.build_driver("drv_purity", "pinned", LIB, **BUILD)
    vlib.build_driver("drv_purity", "debug", LIB, **BUILD)


def run(pid, tier):
    t0 = time.time()
    work = vlib.scratch(pid)
    model = Model()
    try:
        depth = 2 if tier == "quick" else 3
        cfg = os.path.join(work, "Purity.cfg")
        base = "SPECIFICATION Spec\nCONSTANTS Depth = %d\nReadsResidue = %s\nINVARIANT Pure\nCHECK_DEADLOCK FALSE\n"
        with open(cfg, "w") as f:
            f.write(base % (depth, "FALSE"))
        r = vlib.tlc_or_broken("Purity.tla", cfg, workers=4, xmx="4g")
        model.add("Purity[depth=%d]" % depth, r)
        scheds = {"S "}
        for m in re.findall(r'<<\s*"SCHED",\s*<<(.*?)>>\s*>>\n', r["out"], re.S):
            steps = re.findall(r'<<"(\w+)", "(\w+)">>', m)
            scheds.add("S " + " ; ".join("%s %s" % s for s in steps))
        if len(scheds) < 100:
            raise Broken("Purity.tla printed too few schedules (%d)" % len(scheds))
        with open(cfg, "w") as f:
            f.write(base % (2, "TRUE"))
        rn = vlib.tlc("Purity.tla", cfg, workers=4, xmx="2g")
        area_mem.clean_ttrace()
        if "Invariant Pure is violated" not in rn["out"]:
            raise Broken("Purity negative control (callee reads residue) found no counterexample")
        path = os.path.join(work, "scheds.txt")
        with open(path, "w") as f:
            f.write("\n".join(sorted(scheds)) + "\n")
        # boundary domain of the scalar families (ScalarGen.tla) for the scalar call classes
        import area_scalar
        svals, rs = area_scalar.gen_values(work, 40)
        model.add("ScalarGen", rs)
        tiers = ["pinned", "debug"]
        parts = {}
        cmds = []
        for t in tiers:
            drv = vlib.build_driver("drv_purity", t, LIB, **BUILD)
            for proc in ("A", "B"):
                for s in range(NSH):
                    out = os.path.join(work, "pu-%s-%s-%02d.ndjson" % (t, proc, s))
                    parts.setdefault((t, s), []).append(out)
                    cmds.append([drv, path, str(s), str(NSH), proc, out])
        # process B runs with a different environment size / seed for the free details
        vlib.run_many([c for c in cmds if c[4] == "A"], env={"VERIF_SEED": vlib.SEED, "VERIF_SCALAR_VALUES": svals})
        vlib.run_many([c for c in cmds if c[4] == "B"], env={"VERIF_SEED": vlib.SEED + 17, "VERIF_PAD": "x" * 3000,
                                                                 "VERIF_SCALAR_VALUES": svals})
        uninit = []
        if tier == "thorough":
            drv = vlib.build_driver("drv_purity", "debug", LIB, **BUILD)
            small = os.path.join(work, "scheds-small.txt")
            with open(small, "w") as f:
                f.write("S \nS stack count\nS heap ones ; prev same_api_same_count\n")
            for s in range(NSH):
                out = os.path.join(work, "vg-%02d.ndjson" % s)
                pr = subprocess.run(["valgrind", "-q", "--error-exitcode=9", "--track-origins=no", drv, small, str(s),
                                     str(NSH), "V", out], capture_output=True, text=True, timeout=1500)
                if pr.returncode == 9 or "uninitialised" in pr.stderr:
                    uninit.append(pr.stderr[-800:])
        # one trace per (tier, class shard): both processes concatenated so memo spans them
        traces = []
        for (t, s), files in sorted(parts.items()):
            cat = os.path.join(work, "cat-%s-%02d.ndjson" % (t, s))
            with open(cat, "w") as o:
                for fn in files:
                    with open(fn) as i:
                        shutil.copyfileobj(i, o)
                if uninit and t == "debug" and s == 0:
                    o.write(json.dumps({"e": "Uninit", "id": "memcheck", "fault": 0, "detail": uninit[0][:300]}) + "\n")
            traces.append(cat)
        events, rejects, _ = vlib.validate(traces, "PurityTrace.tla", "PurityTrace.cfg", xmx="3g")
        # negative control: same class, two different results
        with open(traces[0]) as f:
            first = json.loads(f.readline())
        second = dict(first)
        second["written"] = first["written"] + 1
        d = vlib.scratch("neg")
        p = os.path.join(d, "neg.ndjson")
        with open(p, "w") as f:
            f.write(json.dumps(first) + "\n" + json.dumps(second) + "\n")
        rn = vlib.tlc("PurityTrace.tla", "PurityTrace.cfg", env={"TRACE": p}, workers=1, xmx="1g")
        shutil.rmtree(d, ignore_errors=True)
        if not rn["rejects"]:
            raise Broken("negative control accepted: PurityTrace is vacuous")
        classes, samples = vlib.classes_of(traces, lambda ev: (ev.get("id"), ev.get("sched")))
        ncls = len({json.loads(ln).get("id") for t in traces for ln in open(t)})
        rule = ("%d call classes (every array codec and parameter, adaptive automatic and forced to each encoding, "
                "incl. the 4096-element FOR case) x %d schedules enumerated by TLC from Purity.tla (stack residue "
                "{zeros, ones, 0xA5, element count replicated, count-1, random} / heap residue / a previous call of the "
                "same API with the same or another count or of another API, up to depth %d) x 2 processes x tiers %s; "
                "output bytes, length and decoded values compared through the memo state%s; class = (call class, "
                "schedule)" % (ncls, len(scheds), depth, tiers,
                               "; plus valgrind memcheck on a reduced schedule set" if tier == "thorough" else ""))
        return vlib.finish(pid, tier, t0, model, events, len(traces), rejects, samples, classes, rule,
                           ["stack painting covers 96 KiB below the caller's frame; residue deeper than that is not "
                            "controlled", "an optimised build may have folded an uninitialised read into a constant; "
                            "the unoptimised tier and (thorough) memcheck cover that case"],
                           extra={"negative_control": {"ran": True, "rejected": True},
                                  "model_negative_control": {"ran": True, "counterexample_found": True},
                                  "tiers": tiers, "schedules": len(scheds), "call_classes": ncls,
                                  "memcheck_reports": len(uninit)})
    finally:
        shutil.rmtree(work, ignore_errors=True)
