#!/bin/sh
# Builds $VERIF_REPO (default /repo) exactly as pinned, with the verification guard OFF
# (it is never defined by the repository's own build), in a scratch directory outside
# /repo and /verif, runs the 13 pinned ctest tests and removes the scratch directory.
set -e
REPO="${VERIF_REPO:-/repo}"
B="$(mktemp -d /var/tmp/varint-baseline.XXXXXX)"
trap 'rm -rf "$B"' EXIT
cmake -G Ninja -S "$REPO" -B "$B" -DCMAKE_BUILD_TYPE=RelWithDebInfo -DCMAKE_C_FLAGS=-Wno-error >"$B/cfg.log" 2>&1 || { tail -20 "$B/cfg.log"; exit 1; }
cmake --build "$B" >"$B/build.log" 2>&1 || { tail -30 "$B/build.log"; exit 1; }
ctest --test-dir "$B" -j8 --timeout 900 2>&1 | tail -20
ctest --test-dir "$B" -j8 --timeout 900 >/dev/null 2>&1
