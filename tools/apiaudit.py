#!/usr/bin/env python3
"""Which exported functions of the library does no conformance driver call directly?

  tools/apiaudit.py            prints the list (and writes coverage/api_surface.md)

Compiles every non-test source of the tree under test, collects its global text symbols, and greps the
harness sources for each name.  A coverage fact, not a check: it shows where a change could hide from
every driver, and is re-run whenever drivers are added."""
import glob
import os
import re
import subprocess
import sys
import tempfile

ROOT = os.path.dirname(os.path.dirname(os.path.abspath(__file__)))
sys.path.insert(0, os.path.join(ROOT, "tools"))
import vlib  # noqa: E402

REASONS = {
    "varintAdaptiveAnalyze": "statistics modelled by Selector.tla; compared as a coverage fact (a different lossless selector is legal)",
    "varintAdaptiveSelectEncoding": "same",
    "varintAdaptiveAvgDelta": "same", "varintAdaptiveCheckSorted": "same",
    "varintAdaptiveEncodingName": "returns a display string",
    "varintBP128IsBeneficial32": "advisory predicate, no listed property", "varintBP128IsBeneficial64": "same",
    "varintBP128IsSorted32": "advisory predicate", "varintBP128IsSorted64": "advisory predicate",
    "varintEliasGammaIsBeneficial": "advisory predicate", "varintEliasDeltaIsBeneficial": "advisory predicate",
    "varintRLEIsBeneficial": "advisory predicate", "varintDictCompressionRatio": "advisory ratio",
    "varintFORHasSIMD": "build information",
    "varintBitReaderHasMore": "internal bit reader of the Elias codecs (exercised through them)",
    "varintBitReaderRead": "same", "varintBitWriterBytes": "same", "varintBitWriterWrite": "same",
    "varintFloatCompose": "internal step of the float codec (exercised through Encode/Decode)",
    "varintFloatDecompose": "same",
    "varintDeltaGet": "single-delta primitive used by the delta array codec (exercised through it)",
    "varintDeltaPut": "same",
    "varintExternalSignedEncoding": "asserts on negative input; equals UnsignedEncoding otherwise (exercised through the macro varintExternalLen)",
}


def main():
    src = os.path.join(vlib.REPO, "src")
    syms = set()
    with tempfile.TemporaryDirectory() as d:
        for f in sorted(glob.glob(os.path.join(src, "*.c"))):
            b = os.path.basename(f)
            if "Test" in b or "test" in b or "Bench" in b:
                continue
            o = os.path.join(d, b + ".o")
            r = subprocess.run(["gcc", "-c", "-O0", "-w", "-mavx2", "-mavx512f", "-mavx512vl", "-mf16c", "-I" + src, f, "-o", o],
                               capture_output=True)
            if r.returncode:
                continue
            for ln in subprocess.run(["nm", "--defined-only", o], capture_output=True, text=True).stdout.splitlines():
                p = ln.split()
                if len(p) == 3 and p[1] == "T":
                    syms.add(p[2])
    text = ""
    for f in glob.glob(os.path.join(ROOT, "harness", "*")):
        with open(f, errors="ignore") as fh:
            text += fh.read()
    unused = sorted(s for s in syms if not re.search(r"\b%s\b" % re.escape(s), text))
    os.makedirs(os.path.join(ROOT, "coverage"), exist_ok=True)
    with open(os.path.join(ROOT, "coverage", "api_surface.md"), "w") as f:
        f.write("# Exported functions and the conformance drivers\n\n%d exported functions; %d are called directly by a "
                "driver under `harness/`.\nNot called directly (%d):\n\n| function | why |\n|---|---|\n"
                % (len(syms), len(syms) - len(unused), len(unused)))
        for s in unused:
            why = REASONS.get(s, "")
            if not why and s.startswith("varintPacked12"):
                why = "instantiation of varintPacked.h inside varintDimension.c; the same configuration (12 bits, uint8_t slots, uint16_t promotion, max 3700) is instantiated by harness/pk_gen.c"
            f.write("| `%s` | %s |\n" % (s, why or "**unbound**"))
    print("%d exported, %d not called directly, %d without a recorded reason"
          % (len(syms), len(unused), sum(1 for s in unused if not REASONS.get(s) and not s.startswith("varintPacked12"))))
    for s in unused:
        if not REASONS.get(s) and not s.startswith("varintPacked12"):
            print("  unbound:", s)


if __name__ == "__main__":
    main()
